#!/bin/bash
# validate MANIFEST.json and all evidence files against the schemas
python3-vt - <<'PY'
import json,jsonschema,glob,sys
ok=True
try:
    jsonschema.validate(json.load(open('/verif/MANIFEST.json')), json.load(open('/root/.vp/MANIFEST.schema.json')))
except Exception as e:
    ok=False; print('MANIFEST:', str(e)[:300])
es=json.load(open('/root/.vp/EVIDENCE.schema.json'))
for f in sorted(glob.glob('/verif/evidence/*.json')):
    try: jsonschema.validate(json.load(open(f)), es)
    except Exception as e:
        ok=False; print(f, str(e)[:300])
m=json.load(open('/verif/MANIFEST.json'))
claimed={c['property_id'] for c in m['checks']}
na={c['property_id'] for c in m.get('not_applicable',[])}
allp={json.loads(l)['id'] for l in open('/verif/properties.jsonl')}
print('claimed',len(claimed),'na',len(na),'unlisted',sorted(allp-claimed-na))
print('valid' if ok else 'INVALID')
PY
