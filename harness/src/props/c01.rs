//! C01 — loading is faithful; load -> serialize -> load is the identity. Engines specwalk (generated full
//! documents per version) and lexenum (value / encoding / layout sweep on small skeletons).
use crate::common::docgen::*;
use crate::common::invariants::*;
use crate::common::regexdfa::Dfa;
use crate::common::specgraph::*;
use crate::common::tree::*;
use crate::common::*;
use autosar_data::*;
use autosar_data_specification::*;
use rayon::prelude::*;
use serde_json::{json, Value};
use std::collections::{BTreeSet, HashMap, HashSet};
use std::sync::atomic::{AtomicU64, Ordering};

pub struct Loaded {
    pub model: AutosarModel,
    pub file: ArxmlFile,
    pub warnings: Vec<String>,
    pub warning_classes: Vec<String>,
}

/// variant name of an error, e.g. "ParserError::ElementVersionError"
pub fn err_class(e: &AutosarDataError) -> String {
    let first_ident = |s: String| s.split(|c: char| !c.is_alphanumeric()).next().unwrap_or("").to_string();
    match e {
        AutosarDataError::LexerError { source, .. } => format!("LexerError::{}", first_ident(format!("{source:?}"))),
        AutosarDataError::ParserError { source, .. } => format!("ParserError::{}", first_ident(format!("{source:?}"))),
        other => first_ident(format!("{other:?}")),
    }
}

pub struct LoadErr {
    pub text: String,
    pub class: String,
}
impl std::fmt::Debug for LoadErr {
    fn fmt(&self, f: &mut std::fmt::Formatter<'_>) -> std::fmt::Result {
        f.write_str(&self.text)
    }
}

pub fn load_classified(text: &[u8], strict: bool) -> Result<Result<Loaded, LoadErr>, String> {
    guarded(|| {
        let model = AutosarModel::new();
        match model.load_buffer(text, "x.arxml", strict) {
            Ok((file, w)) => Ok(Loaded {
                model: model.clone(),
                file,
                warnings: w.iter().map(|e| e.to_string()).collect(),
                warning_classes: w.iter().map(err_class).collect(),
            }),
            Err(e) => Err(LoadErr { text: e.to_string(), class: err_class(&e) }),
        }
    })
}

pub fn load(text: &[u8], strict: bool) -> Result<Result<Loaded, String>, String> {
    load_classified(text, strict).map(|r| r.map_err(|e| e.text))
}

pub fn index_of(m: &AutosarModel) -> (BTreeSet<String>, Vec<(String, usize)>) {
    let paths: BTreeSet<String> = m.identifiable_elements().map(|(p, _)| p).collect();
    let mut refs: Vec<(String, usize)> = m.verif_reference_origin_keys().into_iter().map(|k| (k.clone(), m.get_references_to(&k).len())).collect();
    refs.sort();
    (paths, refs)
}

pub fn diff_class(d: &str) -> String {
    // "<path>: text ..." -> "text"
    d.split(": ").nth(1).and_then(|r| r.split(' ').next()).unwrap_or("?").to_string()
}

/// the C01 oracle for one document whose expected model is `expected` (root attrs ignored)
/// `ctxinfo` goes into witnesses; returns number of oracle evaluations
pub fn check_document(ctx: &Ctx, family: &str, text: &str, expected: &Node, standalone: Option<bool>, mk_witness: &dyn Fn() -> Value) -> u64 {
    let mut evals = 0;
    for strict in [true, false] {
        let mode = if strict { "strict" } else { "lenient" };
        evals += 1;
        let l1 = match load(text.as_bytes(), strict) {
            Err(msg) => {
                ctx.violation(format!("{family}|panic|{mode}|{}", last_panic_loc()), json!({"kind": "doc", "doc": mk_witness(), "msg": msg}));
                continue;
            }
            Ok(Err(e)) => {
                let class: String = e.split(": ").last().unwrap_or("").split(' ').take(4).collect::<Vec<_>>().join(" ");
                ctx.violation(format!("{family}|valid-document-rejected|{mode}|{class}"), json!({"kind": "doc", "doc": mk_witness(), "error": e}));
                continue;
            }
            Ok(Ok(l)) => l,
        };
        if !l1.warnings.is_empty() {
            let class: String = l1.warnings[0].split(": ").last().unwrap_or("").split(' ').take(4).collect::<Vec<_>>().join(" ");
            ctx.violation(format!("{family}|valid-document-warns|{class}"), json!({"kind": "doc", "doc": mk_witness(), "warning": l1.warnings[0]}));
        }
        let s_m1 = snapshot_model(&l1.model);
        let mut exp = expected.clone();
        exp.attrs.clear();
        if let Some(d) = s_m1.diff(&exp, "") {
            ctx.violation(format!("{family}|loaded-model-differs-from-document|{mode}|{}", diff_class(&d)), json!({"kind": "doc", "doc": mk_witness(), "diff(loaded vs document)": d}));
        }
        if l1.file.xml_standalone() != standalone {
            ctx.violation(format!("{family}|standalone-not-preserved"), json!({"kind": "doc", "doc": mk_witness()}));
        }
        // round trip
        let s1 = match guarded(|| l1.file.serialize()) {
            Ok(Ok(s)) => s,
            other => {
                ctx.violation(format!("{family}|serialize-fails|{mode}"), json!({"kind": "doc", "doc": mk_witness(), "result": format!("{:?}", other.map(|r| r.map(|_| ())))}));
                continue;
            }
        };
        let l2 = match load(s1.as_bytes(), strict) {
            Ok(Ok(l)) => l,
            other => {
                ctx.violation(
                    format!("{family}|serialized-text-does-not-load|{mode}"),
                    json!({"kind": "doc", "doc": mk_witness(), "result": format!("{:?}", other.map(|r| r.map(|_| ())))}),
                );
                continue;
            }
        };
        if !l2.warnings.is_empty() {
            ctx.violation(format!("{family}|serialized-text-warns|{mode}"), json!({"kind": "doc", "doc": mk_witness(), "warning": l2.warnings[0]}));
        }
        let s_m2 = snapshot_model(&l2.model);
        if let Some(d) = s_m2.with_adjacent_text_merged().diff(&s_m1.with_adjacent_text_merged(), "") {
            ctx.violation(format!("{family}|reload-differs|{mode}|{}", diff_class(&d)), json!({"kind": "doc", "doc": mk_witness(), "diff(reloaded vs loaded)": d}));
        }
        if index_of(&l1.model) != index_of(&l2.model) {
            ctx.violation(format!("{family}|reload-index-differs|{mode}"), json!({"kind": "doc", "doc": mk_witness()}));
        }
        match guarded(|| l2.file.serialize()) {
            Ok(Ok(s2)) if s2 == s1 => {}
            _ => ctx.violation(format!("{family}|second-serialization-not-byte-identical|{mode}"), json!({"kind": "doc", "doc": mk_witness()})),
        }
    }
    evals
}

/// load -> serialize -> load must be the identity and the second serialization byte-identical (no expected model)
pub fn check_roundtrip_only(ctx: &Ctx, family: &str, text: &str) -> u64 {
    let mut n = 0;
    for strict in [true, false] {
        let mode = if strict { "strict" } else { "lenient" };
        n += 1;
        let w = || json!({"generator": "raw", "text": text});
        let l1 = match load(text.as_bytes(), strict) {
            Err(msg) => {
                ctx.violation(format!("{family}|panic|{mode}"), json!({"kind": "doc", "doc": w(), "msg": msg}));
                continue;
            }
            Ok(Err(_)) => continue, // not accepted: outside the quantifier
            Ok(Ok(l)) => l,
        };
        let Ok(Ok(s1)) = guarded(|| l1.file.serialize()) else {
            ctx.violation(format!("{family}|serialize-fails|{mode}"), json!({"kind": "doc", "doc": w()}));
            continue;
        };
        let l2 = match load(s1.as_bytes(), strict) {
            Ok(Ok(l)) => l,
            other => {
                ctx.violation(format!("{family}|serialized-text-does-not-load|{mode}"), json!({"kind": "doc", "doc": w(), "result": format!("{:?}", other.map(|r| r.map(|_| ())))}));
                continue;
            }
        };
        let (a, b) = (snapshot_model(&l1.model).with_adjacent_text_merged(), snapshot_model(&l2.model).with_adjacent_text_merged());
        if let Some(d) = b.diff(&a, "") {
            ctx.violation(format!("{family}|reload-differs|{mode}|{}", diff_class(&d)), json!({"kind": "doc", "doc": w(), "diff(reloaded vs loaded)": d, "serialized": s1}));
        }
        match guarded(|| l2.file.serialize()) {
            Ok(Ok(s2)) if s2 == s1 => {}
            _ => ctx.violation(format!("{family}|second-serialization-not-byte-identical|{mode}"), json!({"kind": "doc", "doc": w()})),
        }
    }
    n
}

fn opts_set(tier: Tier, vi: usize) -> Vec<PrintOpts> {
    let a = PrintOpts::default();
    let b = PrintOpts { layout: Layout::Compact, single_quotes: true, entity: Entity::Decimal, empty_pair: true, bom: false, standalone: Some(true) };
    let c = PrintOpts { layout: Layout::Odd, single_quotes: false, entity: Entity::Hex, empty_pair: false, bom: true, standalone: Some(false) };
    let d = PrintOpts { layout: Layout::Indented, single_quotes: true, entity: Entity::Minimal, empty_pair: true, bom: true, standalone: None };
    match tier {
        Tier::Thorough => vec![a, b, c, d],
        Tier::Quick => match vi % 4 {
            0 => vec![a, b],
            1 => vec![a, c],
            2 => vec![a, d],
            _ => vec![a],
        },
    }
}

struct Slot {
    label: String,
    path: Vec<Step>,
    attr: Option<AttributeName>,
    spec: &'static CharacterDataSpec,
    mixed: bool,
}

fn find_slots(r: &Reach) -> Vec<Slot> {
    // one slot per distinct character-data spec in element position and in attribute position (non-enum kinds),
    // plus one enum slot each, plus one mixed-content slot
    let mut seen_elem: HashSet<usize> = HashSet::new();
    let mut seen_attr: HashSet<usize> = HashSet::new();
    let mut slots = vec![];
    let mut enum_elem = false;
    let mut enum_attr = false;
    let mut mixed = false;
    for t in &r.order {
        let path = r.path[t].clone();
        if path.len() > 12 {
            continue;
        }
        if let Some(spec) = t.chardata_spec() {
            let id = spec as *const _ as usize;
            let is_enum = matches!(spec, CharacterDataSpec::Enum { .. });
            if t.content_mode() == ContentMode::Characters {
                if (is_enum && !enum_elem) || (!is_enum && seen_elem.insert(id)) {
                    enum_elem |= is_enum;
                    slots.push(Slot { label: format!("element {}", path.last().unwrap().name), path: path.clone(), attr: None, spec, mixed: false });
                }
            } else if t.content_mode() == ContentMode::Mixed && !mixed && sub_specs(*t, r.version).len() >= 2 {
                mixed = true;
                slots.push(Slot { label: format!("mixed {}", path.last().unwrap().name), path: path.clone(), attr: None, spec, mixed: true });
            }
        }
        if *t == ElementType::ROOT {
            continue;
        }
        for (an, spec, _) in attribute_specs(*t) {
            if !t.find_attribute_spec(an).is_some_and(|a| r.version.compatible(a.version)) {
                continue;
            }
            let id = spec as *const _ as usize;
            let is_enum = matches!(spec, CharacterDataSpec::Enum { .. });
            if (is_enum && !enum_attr) || (!is_enum && seen_attr.insert(id)) {
                enum_attr |= is_enum;
                slots.push(Slot { label: format!("attribute {}@{}", path.last().unwrap().name, an), path: path.clone(), attr: Some(an), spec, mixed: false });
            }
        }
    }
    slots
}

const DECODED: [char; 12] = ['a', '1', ' ', '\n', '\t', '&', '<', '>', '\'', '"', 'é', ';'];

fn strings_upto(alpha: &[char], max: usize) -> Vec<String> {
    let mut out = vec![String::new()];
    let mut level = vec![String::new()];
    for _ in 0..max {
        let mut next = vec![];
        for s in &level {
            for c in alpha {
                let mut t = s.clone();
                t.push(*c);
                next.push(t);
            }
        }
        out.extend(next.iter().cloned());
        level = next;
    }
    out
}

fn is_ws(c: char) -> bool {
    c.is_ascii_whitespace()
}

/// values for one slot: the members of the spec's language among all strings <= len over the decoded alphabet
/// (plus pattern members over the pattern's own alphabet), with the value the model must hold
fn slot_values(slot: &Slot, v: AutosarVersion, len: usize) -> Vec<(String, Val)> {
    let mut out = vec![];
    match slot.spec {
        CharacterDataSpec::String { preserve_whitespace, max_length } => {
            let preserve = *preserve_whitespace && slot.attr.is_none() && !slot.mixed;
            for s in strings_upto(&DECODED, len) {
                if max_length.is_some_and(|m| s.len() > m) {
                    continue;
                }
                let expect = if preserve { s.clone() } else { s.trim_matches(is_ws).to_string() };
                if expect.trim_matches(is_ws).is_empty() {
                    continue; // whitespace-only and empty values are not generated
                }
                out.push((s, Val::Str(expect)));
            }
        }
        CharacterDataSpec::Pattern { regex, max_length, check_fn } => {
            let Ok(dfa) = Dfa::from_regex(regex) else { return out };
            let (_, reps) = dfa.byte_classes();
            let sink = dfa.sink();
            let mut alpha: Vec<u8> = reps.into_iter().filter(|b| b.is_ascii_graphic() || *b == b' ').collect();
            // characters that need escaping in XML, wherever the pattern admits them
            for extra in [b'&', b'<', b'>', b'\'', b'"', b';', b'#'] {
                if !alpha.contains(&extra) {
                    alpha.push(extra);
                }
            }
            // all members up to length len+2 over one representative per byte class
            fn rec(dfa: &Dfa, sink: Option<u16>, alpha: &[u8], st: u16, buf: &mut Vec<u8>, left: usize, out: &mut Vec<String>) {
                if dfa.accept[st as usize] && !buf.is_empty() {
                    out.push(String::from_utf8(buf.clone()).unwrap());
                }
                if left == 0 {
                    return;
                }
                for &b in alpha {
                    let nx = dfa.trans[st as usize][b as usize];
                    if Some(nx) != sink {
                        buf.push(b);
                        rec(dfa, sink, alpha, nx, buf, left - 1, out);
                        buf.pop();
                    }
                }
            }
            let mut members = vec![];
            rec(&dfa, sink, &alpha, dfa.start, &mut vec![], len + 2, &mut members);
            // a member through every transition of the automaton: access string + byte + shortest completion
            let cover = dfa.state_cover();
            let best = dfa.shortest_members();
            for (st, acc) in cover.iter().enumerate() {
                for &b in &alpha {
                    let nx = dfa.trans[st][b as usize];
                    if let Some(suffix) = &best[nx as usize] {
                        let mut m = acc.clone();
                        m.push(b);
                        m.extend_from_slice(suffix);
                        if let Ok(s) = String::from_utf8(m) {
                            if s.len() <= 40 && s.bytes().all(|c| c.is_ascii_graphic() || c == b' ') {
                                members.push(s);
                            }
                        }
                    }
                }
            }
            members.sort();
            members.dedup();
            if members.is_empty() {
                let mut ctr = 0;
                members.push(sample_for_regex(regex, &mut ctr));
            }
            for m in members {
                if max_length.is_some_and(|mx| m.len() > mx) || !check_fn(m.as_bytes()) {
                    continue;
                }
                let trimmed = m.trim_matches(is_ws).to_string();
                if trimmed.is_empty() {
                    continue;
                }
                // surrounding blanks are insignificant for pattern kinds
                out.push((m.clone(), Val::Str(trimmed.clone())));
                out.push((format!(" {m}\n"), Val::Str(trimmed)));
            }
        }
        CharacterDataSpec::Enum { items } => {
            for (item, mask) in items.iter() {
                if v.compatible(*mask) {
                    out.push((item.to_str().to_string(), Val::Enum(item.to_str().to_string())));
                    out.push((format!("\n  {}  ", item.to_str()), Val::Enum(item.to_str().to_string())));
                }
            }
        }
        CharacterDataSpec::UnsignedInteger => {
            for t in ["0", "1", "42", "18446744073709551615", " 7 ", "007"] {
                out.push((t.to_string(), Val::UInt(t.trim().parse().unwrap())));
            }
        }
        CharacterDataSpec::Float => {
            for t in ["0", "1.5", "-2.5e-3", "1e308", "INF", "-INF", "NaN", " 3.25 ", "4.9e-324", "0.1", "-0.0", "1E5", ".5", "5."] {
                let f: f64 = t.trim().parse().unwrap();
                out.push((t.to_string(), Val::Float(if f.is_nan() { f64::NAN.to_bits() } else { f.to_bits() })));
            }
        }
    }
    out
}

/// Val whose printed text is `raw` (the printer escapes; the expected value is held separately)
fn raw_val(raw: &str) -> Val {
    Val::Str(raw.to_string())
}

fn build_slot_doc(slot: &Slot, v: AutosarVersion, raw: &str, expect: &Val, comment: bool) -> Option<(Node, Node)> {
    // returns (tree to print, tree expected in the model)
    let mut ctr = 0;
    let last = slot.path.last().unwrap();
    let mut leaf_print = minimal_node(last.name, last.etype, v, &mut ctr)?;
    let mut leaf_expect = leaf_print.clone();
    if let Some(an) = slot.attr {
        leaf_print.attrs.retain(|(a, _)| a != an.to_str());
        leaf_expect.attrs.retain(|(a, _)| a != an.to_str());
        // attribute order: as written
        leaf_print.attrs.push((an.to_str().to_string(), raw_val(raw)));
        leaf_expect.attrs.push((an.to_str().to_string(), expect.clone()));
    } else if slot.mixed {
        // text, element, text
        let subs = sub_specs(last.etype, v);
        let sub = subs.iter().find(|s| s.etype.content_mode() == ContentMode::Characters || s.etype.content_mode() == ContentMode::Mixed)?;
        let child = minimal_node(sub.name, sub.etype, v, &mut ctr)?;
        leaf_print.items.retain(|i| matches!(i, Item::Node(_)));
        leaf_expect.items.retain(|i| matches!(i, Item::Node(_)));
        leaf_print.items.push(Item::Text(raw_val(raw)));
        leaf_print.items.push(Item::Node(child.clone()));
        leaf_print.items.push(Item::Text(raw_val(raw)));
        leaf_expect.items.push(Item::Text(expect.clone()));
        leaf_expect.items.push(Item::Node(child));
        leaf_expect.items.push(Item::Text(expect.clone()));
    } else {
        leaf_print.items.retain(|i| matches!(i, Item::Node(_)));
        leaf_expect.items.retain(|i| matches!(i, Item::Node(_)));
        leaf_print.items.push(Item::Text(raw_val(raw)));
        leaf_expect.items.push(Item::Text(expect.clone()));
    }
    if comment {
        leaf_print.comment = Some(" c > < & ' \" ".to_string());
        leaf_expect.comment = leaf_print.comment.clone();
    }
    let mut c1 = 0;
    let mut c2 = 0;
    Some((wrap_in_path(&slot.path, leaf_print, v, &mut c1)?, wrap_in_path(&slot.path, leaf_expect, v, &mut c2)?))
}

pub fn run(tier: Tier) -> i32 {
    let ctx = Ctx::new("C01", tier);
    let evals = AtomicU64::new(0);
    let states = AtomicU64::new(0);
    let edges = AtomicU64::new(0);
    let attrs = AtomicU64::new(0);
    let docs = AtomicU64::new(0);
    let bytes = AtomicU64::new(0);
    // (a) full documents for every version
    VERSIONS.par_iter().enumerate().for_each(|(vi, v)| {
        for rich in [true, false] {
            if !rich && tier == Tier::Quick && vi % 5 != 0 {
                continue;
            }
            let mut g = DocGen::new(*v, rich);
            let doc = g.document();
            if rich {
                states.fetch_add(g.expanded.len() as u64, Ordering::Relaxed);
                edges.fetch_add(g.edges as u64, Ordering::Relaxed);
                attrs.fetch_add(g.attrs as u64, Ordering::Relaxed);
            }
            let r = reach(*v);
            for (kind, t, n) in listing_lookup_discrepancies(&r) {
                ctx.violation(format!("spec|{kind}"), json!({"version": format!("{:?}", r.version), "type": t, "name": n.to_str()}));
            }
            if g.uncoverable > 0 {
                ctx.count("edges_excluded_because_alternative_of_mandatory_short_name", g.uncoverable as u64);
            }
            if g.expanded.len() != r.order.len() && g.uncoverable == 0 {
                ctx.machinery_error(format!("{v:?}: generator expanded {} types, {} are reachable", g.expanded.len(), r.order.len()));
            }
            for o in opts_set(tier, vi) {
                let text = print_document(&doc, *v, &o);
                docs.fetch_add(1, Ordering::Relaxed);
                bytes.fetch_add(text.len() as u64, Ordering::Relaxed);
                let w = || json!({"generator": "full-document", "version": format!("{v:?}"), "rich_values": rich, "print_options": format!("{o:?}"), "bytes": text.len()});
                let n = check_document(&ctx, "full", &text, &doc, o.standalone, &w);
                evals.fetch_add(n, Ordering::Relaxed);
                // C04/C05 style invariants on the loaded full document
                if let Ok(Ok(l)) = load(text.as_bytes(), true) {
                    for p in all_invariants(&l.model, &Scope::default()) {
                        ctx.violation(format!("full|invariant|{}|{}", p.prop, p.key), json!({"kind": "doc", "doc": w(), "detail": p.detail}));
                    }
                    let (paths, _) = abstract_index(&doc);
                    let listed: BTreeSet<String> = l.model.identifiable_elements().map(|(p, _)| p).collect();
                    let expect: BTreeSet<String> = paths.into_iter().collect();
                    if listed != expect {
                        ctx.violation("full|paths-differ-from-document", json!({"kind": "doc", "doc": w(), "missing": expect.difference(&listed).take(3).collect::<Vec<_>>(), "extra": listed.difference(&expect).take(3).collect::<Vec<_>>()}));
                    }
                }
            }
        }
    });
    ctx.count("full_documents", docs.load(Ordering::Relaxed));
    ctx.count("full_document_bytes", bytes.load(Ordering::Relaxed));
    ctx.count("attribute_instances", attrs.load(Ordering::Relaxed));
    ctx.sample(json!({"generator": "full-document", "version": "Autosar_00053", "covers": "every (type, sub-element) edge, attribute and character-data spec valid in the version"}));

    // (b) lexical sweep on skeleton documents
    let sweep_versions: Vec<AutosarVersion> = tier.pick(vec![VERSIONS[20]], vec![VERSIONS[0], VERSIONS[11], VERSIONS[20]]);
    let len = tier.pick(3usize, 4usize);
    let sweep_docs = AtomicU64::new(0);
    let slot_count = AtomicU64::new(0);
    for v in &sweep_versions {
        let r = reach(*v);
        let slots = find_slots(&r);
        slot_count.fetch_add(slots.len() as u64, Ordering::Relaxed);
        slots.par_iter().for_each(|slot| {
            let values = slot_values(slot, *v, len);
            let is_string = matches!(slot.spec, CharacterDataSpec::String { .. });
            values.par_iter().enumerate().for_each(|(i, (raw, expect))| {
                let all_opts: Vec<PrintOpts> = {
                    let mut o = vec![];
                    let entities: &[Entity] = if is_string { &[Entity::Named, Entity::Decimal, Entity::Hex, Entity::Minimal] } else { &[Entity::Named] };
                    for ent in entities {
                        for sq in [false, true] {
                            if slot.attr.is_none() && sq {
                                continue;
                            }
                            for layout in [Layout::Indented, Layout::Compact, Layout::Odd] {
                                o.push(PrintOpts { layout, single_quotes: sq, entity: *ent, empty_pair: i % 2 == 0, bom: i % 3 == 0, standalone: None });
                            }
                        }
                    }
                    o
                };
                for (k, o) in all_opts.iter().enumerate() {
                    let Some((print_tree, expect_tree)) = build_slot_doc(slot, *v, raw, expect, k == 0 && i % 7 == 0) else { return };
                    let text = print_document(&print_tree, *v, o);
                    sweep_docs.fetch_add(1, Ordering::Relaxed);
                    let w = || json!({"generator": "slot", "slot": slot.label, "version": format!("{v:?}"), "raw_value": raw, "print_options": format!("{o:?}"), "text": text});
                    let family = format!("slot|{}", spec_kind(slot));
                    let n = check_document(&ctx, &family, &text, &expect_tree, None, &w);
                    evals.fetch_add(n, Ordering::Relaxed);
                }
            });
        });
    }
    ctx.count("slots", slot_count.load(Ordering::Relaxed));
    ctx.count("slot_documents", sweep_docs.load(Ordering::Relaxed));

    // (c) structural specials
    let n = specials(&ctx);
    evals.fetch_add(n, Ordering::Relaxed);

    ctx.eval(evals.load(Ordering::Relaxed));
    ctx.outcome(format!("edges>0:{}", edges.load(Ordering::Relaxed) > 0));
    ctx.outcome(format!("slot_docs>0:{}", sweep_docs.load(Ordering::Relaxed) > 0));
    ctx.assume("whitespace-only runs between tags and outer whitespace of non-preserving kinds are insignificant; whitespace-only values are not generated (DESIGN section 8)");
    ctx.assume("documents come from the harness's own printer applied to a tree the generator built, so the expected model is known without the crate's parser");
    let cov = json!({
        "states": states.load(Ordering::Relaxed),
        "transitions": edges.load(Ordering::Relaxed),
        "traces_validated_against_impl": evals.load(Ordering::Relaxed),
        "value_length_bound": len,
        "versions_full": 21,
        "exhaustive": true,
    });
    ctx.finish("model_checking", cov)
}

fn spec_kind(slot: &Slot) -> String {
    let pos = if slot.attr.is_some() {
        "attribute"
    } else if slot.mixed {
        "mixed"
    } else {
        "element"
    };
    let kind = match slot.spec {
        CharacterDataSpec::Enum { .. } => "enum".to_string(),
        CharacterDataSpec::Pattern { regex, .. } => format!("pattern {}", regex.chars().take(24).collect::<String>()),
        CharacterDataSpec::String { preserve_whitespace, .. } => format!("string pw={preserve_whitespace}"),
        CharacterDataSpec::UnsignedInteger => "uint".into(),
        CharacterDataSpec::Float => "float".into(),
    };
    format!("{pos} {kind}")
}

/// hand-built structural cases: comments in all attachable places, mixed interleavings, empty elements
fn specials(ctx: &Ctx) -> u64 {
    let v = AutosarVersion::Autosar_00050;
    let mut n = 0;
    let sn = |s: &str| Node::new("SHORT-NAME").text(Val::Str(s.into()));
    let tt = |s: &str| Node::new("TT").attr("TYPE", Val::Str("SGMLTAG".into())).text(Val::Str(s.into()));
    let mut cases: Vec<(&str, Node)> = vec![];
    // comments before root, before elements in element content, before elements in mixed content
    let mut root = Node::new("AUTOSAR");
    root.comment = Some(" root comment ".into());
    let mut pkgs = Node::new("AR-PACKAGES");
    pkgs.comment = Some("c-pkgs".into());
    let mut pkg = Node::new("AR-PACKAGE").child(sn("p"));
    pkg.comment = Some(" a > b < c & d ".into());
    let mut l2 = Node::new("L-2").attr("L", Val::Enum("EN".into()));
    l2.items.push(Item::Text(Val::Str("x".into())));
    let mut t1 = tt("b");
    t1.comment = Some("in-mixed".into());
    l2.items.push(Item::Node(t1));
    l2.items.push(Item::Text(Val::Str("y".into())));
    let mut desc = Node::new("DESC").child(l2);
    desc.comment = Some("c-desc".into());
    pkg = pkg.child(desc);
    let mut els = Node::new("ELEMENTS");
    els.comment = Some("before-empty-element".into());
    pkg = pkg.child(els);
    pkgs = pkgs.child(pkg);
    cases.push(("comments", root.clone().child(pkgs)));
    // mixed interleavings of length <= 3 over {text, TT, SUB-less element}
    let kinds = ["t", "e"];
    for a in 0..3usize {
        let mut seqs: Vec<Vec<&str>> = vec![vec![]];
        for _ in 0..=a {
            let mut next = vec![];
            for s in &seqs {
                for k in kinds {
                    let mut t = s.clone();
                    t.push(k);
                    next.push(t);
                }
            }
            seqs = next;
        }
        for seq in seqs {
            // adjacent text runs are one run in XML: skip sequences with two texts in a row
            if seq.windows(2).any(|w| w[0] == "t" && w[1] == "t") {
                continue;
            }
            let mut l2 = Node::new("L-2").attr("L", Val::Enum("EN".into()));
            for (i, k) in seq.iter().enumerate() {
                if *k == "t" {
                    l2.items.push(Item::Text(Val::Str(format!("w{i} &x"))));
                } else {
                    l2.items.push(Item::Node(tt(&format!("e{i}"))));
                }
            }
            let doc = Node::new("AUTOSAR").child(Node::new("AR-PACKAGES").child(Node::new("AR-PACKAGE").child(sn("p")).child(Node::new("DESC").child(l2))));
            cases.push(("mixed-interleaving", doc));
        }
    }
    // documents written by hand whose model the harness does not predict: only the round trip is judged
    let hdr = format!("<?xml version=\"1.0\" encoding=\"utf-8\"?>\n<AUTOSAR {}>", header_attrs(v));
    let pk = |inner: &str| format!("{hdr}<AR-PACKAGES><AR-PACKAGE><SHORT-NAME>p</SHORT-NAME>{inner}</AR-PACKAGE></AR-PACKAGES></AUTOSAR>");
    let raw_cases: Vec<(&str, String)> = vec![
        ("comment-inside-character-data", pk("<CATEGORY>a<!--c-->b</CATEGORY>")),
        ("comment-inside-mixed-text", pk("<DESC><L-2 L=\"EN\">a<!--c-->b<TT TYPE=\"x\">t</TT></L-2></DESC>")),
        ("comment-before-end-tag", pk("<ELEMENTS><!--c--></ELEMENTS>")),
        ("two-comments-before-element", pk("<!--c1--><!--c2--><ELEMENTS/>")),
        ("processing-instruction-inside", pk("<?pi x?><ELEMENTS><?pi y?></ELEMENTS>")),
        ("comment-after-root", format!("{}<!--tail-->", pk(""))),
        ("entity-in-pattern-value", pk("<ADMIN-DATA><DOC-REVISIONS><DOC-REVISION><REVISION-LABEL>1.0.0;a&amp;b</REVISION-LABEL></DOC-REVISION></DOC-REVISIONS></ADMIN-DATA>")),
        ("numeric-reference-in-pattern-value", pk("<ADMIN-DATA><DOC-REVISIONS><DOC-REVISION><REVISION-LABEL>1.0.0;a&#38;b</REVISION-LABEL></DOC-REVISION></DOC-REVISIONS></ADMIN-DATA>")),
    ];
    for (label, text) in raw_cases {
        n += check_roundtrip_only(ctx, &format!("raw|{label}"), &text);
    }
    // a comment inside character data is not content: the document loads to the model of the same document without it,
    // with one value per element, and references are listed once under the whole text
    let split_cases: Vec<(&str, &str)> = vec![
        ("<CATEGORY>a<!--c-->b</CATEGORY>", "<CATEGORY>ab</CATEGORY>"),
        ("<CATEGORY><!--c-->ab</CATEGORY>", "<CATEGORY>ab</CATEGORY>"),
        ("<CATEGORY>ab<!--c--></CATEGORY>", "<CATEGORY>ab</CATEGORY>"),
        ("<CATEGORY>a<!--c-->b<!--d-->c</CATEGORY>", "<CATEGORY>abc</CATEGORY>"),
        ("<CATEGORY> a<!--c-->b </CATEGORY>", "<CATEGORY>ab</CATEGORY>"),
        ("<ADMIN-DATA><DOC-REVISIONS><DOC-REVISION><REVISION-LABEL>1.0.0;a&amp;<!--c-->amp;&#38;<!--d-->b</REVISION-LABEL></DOC-REVISION></DOC-REVISIONS></ADMIN-DATA>", "<ADMIN-DATA><DOC-REVISIONS><DOC-REVISION><REVISION-LABEL>1.0.0;a&amp;amp;&#38;b</REVISION-LABEL></DOC-REVISION></DOC-REVISIONS></ADMIN-DATA>"),
        ("<ELEMENTS><SYSTEM><SHORT-NAME>s<!--c-->1</SHORT-NAME><PNC-VECTOR-LENGTH>1<!--c-->2</PNC-VECTOR-LENGTH><FIBEX-ELEMENTS><FIBEX-ELEMENT-REF-CONDITIONAL><FIBEX-ELEMENT-REF DEST=\"CAN-CLUSTER\">/p<!--c-->/c1</FIBEX-ELEMENT-REF></FIBEX-ELEMENT-REF-CONDITIONAL></FIBEX-ELEMENTS></SYSTEM><CAN-CLUSTER><SHORT-NAME><!--c-->c<!--d-->1</SHORT-NAME></CAN-CLUSTER></ELEMENTS>",
         "<ELEMENTS><SYSTEM><SHORT-NAME>s1</SHORT-NAME><PNC-VECTOR-LENGTH>12</PNC-VECTOR-LENGTH><FIBEX-ELEMENTS><FIBEX-ELEMENT-REF-CONDITIONAL><FIBEX-ELEMENT-REF DEST=\"CAN-CLUSTER\">/p/c1</FIBEX-ELEMENT-REF></FIBEX-ELEMENT-REF-CONDITIONAL></FIBEX-ELEMENTS></SYSTEM><CAN-CLUSTER><SHORT-NAME>c1</SHORT-NAME></CAN-CLUSTER></ELEMENTS>"),
        ("<ELEMENTS><ECUC-MODULE-CONFIGURATION-VALUES><SHORT-NAME>m</SHORT-NAME><IMPLEMENTATION-CONFIG-VARIANT>VARIANT-<!--c-->PRE-COMPILE</IMPLEMENTATION-CONFIG-VARIANT><CONTAINERS><ECUC-CONTAINER-VALUE><SHORT-NAME>k</SHORT-NAME><PARAMETER-VALUES><ECUC-TEXTUAL-PARAM-VALUE><VALUE>a <!--c--> b</VALUE></ECUC-TEXTUAL-PARAM-VALUE></PARAMETER-VALUES></ECUC-CONTAINER-VALUE></CONTAINERS></ECUC-MODULE-CONFIGURATION-VALUES></ELEMENTS>",
         "<ELEMENTS><ECUC-MODULE-CONFIGURATION-VALUES><SHORT-NAME>m</SHORT-NAME><IMPLEMENTATION-CONFIG-VARIANT>VARIANT-PRE-COMPILE</IMPLEMENTATION-CONFIG-VARIANT><CONTAINERS><ECUC-CONTAINER-VALUE><SHORT-NAME>k</SHORT-NAME><PARAMETER-VALUES><ECUC-TEXTUAL-PARAM-VALUE><VALUE>a  b</VALUE></ECUC-TEXTUAL-PARAM-VALUE></PARAMETER-VALUES></ECUC-CONTAINER-VALUE></CONTAINERS></ECUC-MODULE-CONFIGURATION-VALUES></ELEMENTS>"),
    ];
    for (with, without) in split_cases {
        let (tw, to) = (pk(with), pk(without));
        n += check_roundtrip_only(ctx, "raw|comment-inside-character-data", &tw);
        for strict in [true, false] {
            let mode = if strict { "strict" } else { "lenient" };
            n += 1;
            let w = || json!({"generator": "raw", "text": tw, "same_document_without_comments": to});
            let (a, b) = match (load(tw.as_bytes(), strict), load(to.as_bytes(), strict)) {
                (Ok(Ok(a)), Ok(Ok(b))) => (a, b),
                (a, b) => {
                    let eb = format!("{:?}", b.as_ref().map(|r| r.as_ref().map(|_| ()).map_err(|e| e.to_string())));
                    let (ra, rb) = (a.map(|r| r.is_ok()), b.map(|r| r.is_ok()));
                    if rb != Ok(true) {
                        ctx.machinery_error(format!("comment-split case: the document without comments does not load ({mode}): {without}: {eb}"));
                    } else {
                        ctx.violation(format!("raw|comment-inside-character-data|accepted-only-without-the-comment|{mode}"), json!({"kind": "doc", "doc": w(), "with": format!("{ra:?}")}));
                    }
                    continue;
                }
            };
            let strip = |n: &Node| -> Node {
                fn rec(n: &Node) -> Node {
                    let mut o = n.clone();
                    o.comment = None;
                    o.items = n.items.iter().map(|i| match i { Item::Node(c) => Item::Node(rec(c)), t => t.clone() }).collect();
                    o
                }
                rec(n)
            };
            let (sa, sb) = (strip(&snapshot_model(&a.model)), strip(&snapshot_model(&b.model)));
            if let Some(d) = sa.diff(&sb, "") {
                ctx.violation(format!("raw|comment-inside-character-data|model-differs-from-the-document-without-comments|{mode}|{}", diff_class(&d)), json!({"kind": "doc", "doc": w(), "diff": d}));
            }
            if !a.warnings.is_empty() {
                ctx.violation(format!("raw|comment-inside-character-data|warnings|{mode}"), json!({"kind": "doc", "doc": w()}));
            }
            for p in all_invariants(&a.model, &Scope::default()) {
                ctx.violation(format!("raw|comment-inside-character-data|invariant|{}|{mode}", p.key), json!({"kind": "doc", "doc": w(), "detail": p.detail}));
            }
        }
    }
    for (label, doc) in cases {
        for o in [
            PrintOpts::default(),
            PrintOpts { layout: Layout::Compact, single_quotes: true, entity: Entity::Hex, empty_pair: true, bom: true, standalone: Some(true) },
            PrintOpts { layout: Layout::Odd, single_quotes: false, entity: Entity::Minimal, empty_pair: false, bom: false, standalone: Some(false) },
        ] {
            let text = print_document(&doc, v, &o);
            let w = || json!({"generator": "special", "case": label, "print_options": format!("{o:?}"), "text": text});
            n += check_document(ctx, &format!("special|{label}"), &text, &doc, o.standalone, &w);
        }
    }
    n
}

pub fn replay(v: &Value) -> i32 {
    let w = &v["witness"]["doc"];
    let Some(text) = w["text"].as_str() else {
        println!("witness carries no document text (full documents are regenerated by the check); re-running the quick check");
        return run(Tier::Quick);
    };
    for strict in [true, false] {
        match load(text.as_bytes(), strict) {
            Ok(Ok(l)) => {
                let s1 = l.file.serialize().unwrap_or_default();
                println!("strict={strict}: loaded, {} warnings\nmodel: {}\nserialized:\n{s1}", l.warnings.len(), snapshot_model(&l.model).rendered());
                if let Ok(Ok(l2)) = load(s1.as_bytes(), strict) {
                    println!("reloaded model: {}", snapshot_model(&l2.model).rendered());
                }
            }
            other => println!("strict={strict}: {:?}", other.map(|r| r.map(|_| ()))),
        }
    }
    1
}

#[allow(dead_code)]
fn unused(_: HashMap<u8, u8>) {}
