//! C09 — merging files keeps each file's content and yields their union in any load order.
//! Enumeration of distributions: every assignment of a non-empty file subset to every child of a splittable
//! element of a master model, sibling order variants, file versions, every load order.
use crate::common::invariants::*;
use crate::common::tree::*;
use crate::common::*;
use autosar_data::*;
use autosar_data_specification::*;
use rayon::prelude::*;
use serde_json::{json, Value};
use std::collections::{BTreeMap, BTreeSet};
use std::str::FromStr;
use std::sync::atomic::{AtomicU64, Ordering};

const V50: AutosarVersion = AutosarVersion::Autosar_00050;
const V49: AutosarVersion = AutosarVersion::Autosar_00049;
const V51: AutosarVersion = AutosarVersion::Autosar_00051;

fn sn(s: &str) -> Node {
    Node::new("SHORT-NAME").text(Val::Str(s.into()))
}
fn named(kind: &str, name: &str) -> Node {
    Node::new(kind).child(sn(name))
}
fn param(defref: &str, value: &str) -> Node {
    Node::new("ECUC-NUMERICAL-PARAM-VALUE")
        .child(Node::new("DEFINITION-REF").attr("DEST", Val::Enum("ECUC-INTEGER-PARAM-DEF".into())).text(Val::Str(defref.into())))
        .child(Node::new("VALUE").text(Val::Str(value.into())))
}

fn tparam(defref: &str, value: &str) -> Node {
    Node::new("ECUC-TEXTUAL-PARAM-VALUE")
        .child(Node::new("DEFINITION-REF").attr("DEST", Val::Enum("ECUC-ENUMERATION-PARAM-DEF".into())).text(Val::Str(defref.into())))
        .child(Node::new("VALUE").text(Val::Str(value.into())))
}

/// (name, master model, version of the newer files, version of the older files)
fn masters() -> Vec<(&'static str, Node, AutosarVersion, AutosarVersion)> {
    let m1 = Node::new("AUTOSAR").child(
        Node::new("AR-PACKAGES")
            .child(
                named("AR-PACKAGE", "p1")
                    .child(Node::new("ELEMENTS").child(named("SYSTEM", "s1")).child(named("CAN-CLUSTER", "c1")).child(named("CAN-CLUSTER", "c2")))
                    .child(Node::new("AR-PACKAGES").child(named("AR-PACKAGE", "p1a").child(Node::new("ELEMENTS").child(named("ECU-INSTANCE", "e1"))))),
            )
            .child(named("AR-PACKAGE", "p2").child(Node::new("ELEMENTS").child(named("CAN-CLUSTER", "c1")))),
    );
    let m2 = Node::new("AUTOSAR").child(
        Node::new("AR-PACKAGES").child(
            named("AR-PACKAGE", "b").child(
                Node::new("ELEMENTS").child(
                    named("ECUC-MODULE-CONFIGURATION-VALUES", "cfg").child(
                        Node::new("CONTAINERS")
                            .child(named("ECUC-CONTAINER-VALUE", "k1").child(Node::new("PARAMETER-VALUES").child(param("/d/a", "1")).child(param("/d/b", "2")).child(param("/d/c", "3"))))
                            .child(named("ECUC-CONTAINER-VALUE", "k2")),
                    ),
                ),
            ),
        ),
    );
    let m3 = Node::new("AUTOSAR").child(
        Node::new("AR-PACKAGES")
            .child(named("AR-PACKAGE", "a").child(Node::new("ELEMENTS").child(named("CAN-CLUSTER", "x")).child(named("SYSTEM", "y")).child(named("ECU-INSTANCE", "z")).child(named("CAN-FRAME", "w"))))
            .child(named("AR-PACKAGE", "a1"))
            .child(named("AR-PACKAGE", "a10")),
    );
    let m4 = Node::new("AUTOSAR").child(Node::new("AR-PACKAGES").child(named("AR-PACKAGE", "p").child(Node::new("ELEMENTS").child(named("SYSTEM", "s")).child(named("CAN-CLUSTER", "c")).child(named("CAN-CLUSTER", "c10")))));
    let m5 = Node::new("AUTOSAR").child(
        Node::new("AR-PACKAGES").child(named("AR-PACKAGE", "q").child(Node::new("ELEMENTS").child(
            named("ECUC-MODULE-CONFIGURATION-VALUES", "cfg").child(Node::new("CONTAINERS").child(named("ECUC-CONTAINER-VALUE", "k").child(Node::new("PARAMETER-VALUES").child(tparam("/d/t", "T")).child(param("/d/b", "2")).child(param("/d/a", "1")).child(tparam("/d/u", "U"))))),
        ))),
    );
    // an element kind that exists from R19-11 (00048 ... mask 1e0000 = 00050 on) only: it can only live in the newer file
    let m6 = Node::new("AUTOSAR").child(
        Node::new("AR-PACKAGES").child(named("AR-PACKAGE", "v").child(Node::new("ELEMENTS").child(named("APPLICATION-INTERFACE", "n")).child(named("CAN-CLUSTER", "c")).child(named("SYSTEM", "s")))),
    );
    // two kinds, two elements each, in an order that is not grouped by kind; explored with every order of the children per file
    let m7 = Node::new("AUTOSAR").child(Node::new("AR-PACKAGES").child(named("AR-PACKAGE", "k").child(
        Node::new("ELEMENTS").child(named("SYSTEM", "x")).child(named("SYSTEM", "w")).child(named("ECU-INSTANCE", "y")).child(named("ECU-INSTANCE", "z")),
    )));
    // a parent whose content is a sequence fixed by the specification, split between files of two versions; MEMORY-USAGES exists from
    // 00051 on only and stands before SECTION-NAME-PREFIXS and STACK-USAGES; the master is in the order of the specification, which the parser does not enforce (found by a sweep over the specification: the only such parent for 00051 / 00050)
    let m8 = Node::new("AUTOSAR").child(Node::new("AR-PACKAGES").child(named("AR-PACKAGE", "r").child(Node::new("ELEMENTS").child(
        named("SWC-IMPLEMENTATION", "i").child(named("RESOURCE-CONSUMPTION", "rc").child(Node::new("MEMORY-USAGES")).child(Node::new("SECTION-NAME-PREFIXS")).child(Node::new("STACK-USAGES"))),
    ))));
    vec![("two-kinds-every-sibling-order", m7, V50, V49), ("version-specific-element", m6, V50, V49), ("sequence-parent-split-between-versions", m8, V51, V50), ("packages-and-elements", m1, V50, V49), ("bsw-values-by-definition-ref", m2, V50, V49), ("flat-bag", m3, V50, V49), ("tiny-bag", m4, V50, V49), ("tiny-bsw", m5, V50, V49)]
}

/// identity of a node among its siblings: kind + SHORT-NAME or DEFINITION-REF text
fn ident(n: &Node) -> String {
    for c in n.children() {
        if c.name == "SHORT-NAME" || c.name == "DEFINITION-REF" {
            if let Some(Item::Text(v)) = c.items.first() {
                return format!("{}[{}]", n.name, v.text());
            }
        }
    }
    n.name.clone()
}

struct Slot {
    key: String,
    parent_key: String,
}

/// the children that may have their own file set: children of elements whose type is splittable, except identity carriers
fn slots(master: &Node, v: AutosarVersion) -> Vec<Slot> {
    fn rec(n: &Node, t: ElementType, key: &str, v: AutosarVersion, out: &mut Vec<Slot>) {
        for c in n.children() {
            let ckey = format!("{key}/{}", ident(c));
            let Ok(name) = ElementName::from_str(&c.name) else { continue };
            let Some((ct, _)) = t.find_sub_element(name, v as u32) else { continue };
            if t.splittable_in(v) && c.name != "SHORT-NAME" && c.name != "DEFINITION-REF" {
                out.push(Slot { key: ckey.clone(), parent_key: key.to_string() });
            }
            rec(c, ct, &ckey, v, out);
        }
    }
    let mut out = vec![];
    rec(master, ElementType::ROOT, "", v, &mut out);
    out
}

thread_local! {
    static NOT_A_VALID_VIEW: std::cell::Cell<bool> = const { std::cell::Cell::new(false) };
}

/// restriction of the master to one file: elements whose effective set contains the file
fn restrict(n: &Node, key: &str, file: usize, assign: &BTreeMap<String, BTreeSet<usize>>, inherited: &BTreeSet<usize>, reverse: bool, t: ElementType, v: AutosarVersion) -> Option<Node> {
    let set = assign.get(key).unwrap_or(inherited);
    if !set.contains(&file) {
        return None;
    }
    let mut out = Node::new(&n.name);
    out.attrs = n.attrs.clone();
    let mut kids = vec![];
    for it in &n.items {
        match it {
            Item::Text(v2) => out.items.push(Item::Text(v2.clone())),
            Item::Node(c) => {
                let ckey = format!("{key}/{}", ident(c));
                let found = ElementName::from_str(&c.name).ok().and_then(|nm| t.find_sub_element(nm, v as u32)).map(|x| x.0);
                let ct = found.unwrap_or(t);
                if let Some(r) = restrict(c, &ckey, file, assign, set, reverse, ct, v) {
                    if found.is_none() {
                        // the distribution puts an element into a file whose version does not have it: not a valid partial view
                        NOT_A_VALID_VIEW.with(|x| x.set(true));
                    }
                    kids.push(r);
                }
            }
        }
    }
    // sibling order is free only among members of a bag / repeated entries of a non-ordered parent; the identity carrier stays first
    if reverse && !t.is_ordered() && matches!(t.content_mode(), ContentMode::Bag | ContentMode::Sequence | ContentMode::Choice) {
        let (fixed, mut free): (Vec<Node>, Vec<Node>) = kids.into_iter().partition(|k| k.name == "SHORT-NAME" || k.name == "DEFINITION-REF");
        // only reverse runs of children that have the same position in the specification or sit in a bag
        if t.content_mode() == ContentMode::Bag || free.iter().all(|k| k.name == free[0].name) {
            free.reverse();
        }
        kids = fixed.into_iter().chain(free).collect();
    }
    for k in kids {
        out.items.push(Item::Node(k));
    }
    Some(out)
}

/// canonical text of a tree: sibling order is dropped, except below parents whose content is a sequence fixed by the specification,
/// where the order of the groups of equally named children is kept (there the merged order is not free: the master's order is the only valid one)
fn canonical_unordered(n: &Node) -> String {
    canonical_typed(n, Some(ElementType::ROOT))
}
fn canonical_typed(n: &Node, t: Option<ElementType>) -> String {
    let mut named_kids: Vec<(String, String)> = n
        .children()
        .map(|c| {
            let ct = t.and_then(|t| ElementName::from_str(&c.name).ok().and_then(|nm| t.find_sub_element(nm, u32::MAX))).map(|x| x.0);
            (c.name.clone(), canonical_typed(c, ct))
        })
        .collect();
    let mut runs: Vec<&str> = vec![];
    for (nm, _) in &named_kids {
        if runs.last() != Some(&nm.as_str()) {
            runs.push(nm);
        }
    }
    let single_runs = runs.iter().collect::<BTreeSet<_>>().len() == runs.len();
    let mut kids: Vec<String> = if t.is_some_and(|t| t.content_mode() == ContentMode::Sequence && !t.is_ordered()) && single_runs {
        let run_of: BTreeMap<String, usize> = runs.iter().enumerate().map(|(i, r)| (r.to_string(), i)).collect();
        named_kids.sort_by(|a, b| (run_of[&a.0], &a.1).cmp(&(run_of[&b.0], &b.1)));
        named_kids.into_iter().map(|k| k.1).collect()
    } else {
        let mut k: Vec<String> = named_kids.into_iter().map(|k| k.1).collect();
        k.sort();
        k
    };
    let _ = &mut kids;
    let texts: Vec<String> = n.items.iter().filter_map(|i| if let Item::Text(v) = i { Some(format!("{v:?}")) } else { None }).collect();
    format!("<{} {:?} {:?}>{}", n.name, n.attrs, texts, kids.join(""))
}

fn element_key(e: &Element) -> String {
    // same identity scheme on the real model
    let mut parts = vec![];
    let mut cur = Some(e.clone());
    while let Some(c) = cur {
        if c.parent().ok().flatten().is_none() {
            break;
        }
        let id = c
            .get_sub_element(ElementName::ShortName)
            .or_else(|| c.get_sub_element(ElementName::DefinitionRef))
            .and_then(|s| s.character_data())
            .map(|d| format!("{}[{}]", c.element_name(), d))
            .unwrap_or_else(|| c.element_name().to_string());
        parts.push(id);
        cur = c.parent().ok().flatten();
    }
    parts.reverse();
    parts.iter().map(|p| format!("/{p}")).collect()
}

struct Case<'a> {
    master_name: &'a str,
    master: &'a Node,
    nfiles: usize,
    assign: BTreeMap<String, BTreeSet<usize>>,
    versions: Vec<AutosarVersion>,
    reverse: Vec<bool>,
    order: Vec<usize>,
    /// per file: the permutation number applied to the children of every ELEMENTS node of that file (0 = as in the master)
    elements_perm: Vec<usize>,
}

/// the k-th permutation (lexicographic numbering by repeated selection) of the element children of every ELEMENTS node
fn permute_elements(n: &mut Node, k: usize) {
    if k == 0 {
        return;
    }
    if n.name == "ELEMENTS" {
        let mut kids: Vec<Item> = std::mem::take(&mut n.items);
        let mut k = k;
        let mut out = vec![];
        while !kids.is_empty() {
            let i = k % kids.len();
            k /= kids.len();
            out.push(kids.remove(i));
        }
        n.items = out;
        return;
    }
    for it in n.items.iter_mut() {
        if let Item::Node(c) = it {
            permute_elements(c, k);
        }
    }
}

fn run_case(ctx: &Ctx, c: &Case) {
    let all: BTreeSet<usize> = (0..c.nfiles).collect();
    NOT_A_VALID_VIEW.with(|x| x.set(false));
    let docs: Vec<Option<Node>> = (0..c.nfiles).map(|f| restrict(c.master, "", f, &c.assign, &all, c.reverse[f], ElementType::ROOT, c.versions[f])).collect();
    if NOT_A_VALID_VIEW.with(|x| x.get()) {
        ctx.count("distributions_skipped_element_not_in_file_version", 1);
        return;
    }
    let mut docs = docs;
    for (f, d) in docs.iter_mut().enumerate() {
        if let Some(d) = d {
            permute_elements(d, c.elements_perm[f]);
        }
    }
    let texts: Vec<String> = docs.iter().enumerate().map(|(f, d)| print_document(d.as_ref().unwrap(), c.versions[f], &PrintOpts::default())).collect();
    let w = |extra: Value| {
        json!({"kind": "merge", "master": c.master_name, "files": texts, "load_order": c.order, "assignment": c.assign.iter().map(|(k, v)| format!("{k} -> {v:?}")).collect::<Vec<_>>(), "detail": extra})
    };
    // every file must be a valid partial view on its own (generator check)
    for (f, t) in texts.iter().enumerate() {
        let m = AutosarModel::new();
        if let Err(e) = m.load_buffer(t.as_bytes(), format!("f{f}.arxml"), true) {
            ctx.machinery_error(format!("generated file does not load alone: {e}"));
            return;
        }
    }
    let model = AutosarModel::new();
    let mut files: Vec<Option<ArxmlFile>> = vec![None; c.nfiles];
    for &f in &c.order {
        match guarded(|| model.load_buffer(texts[f].as_bytes(), format!("f{f}.arxml"), true)) {
            Ok(Ok((file, warn))) => {
                if !warn.is_empty() {
                    ctx.violation("merge|strict-load-returns-warnings", w(json!({})));
                }
                files[f] = Some(file);
            }
            Ok(Err(e)) => {
                ctx.violation(format!("merge|valid-partial-view-rejected|{}", super::c01::err_class(&e)), w(json!({"error": e.to_string(), "file": f})));
                return;
            }
            Err(msg) => {
                ctx.violation(format!("merge|panic|{}", last_panic_loc()), w(json!({"msg": msg})));
                return;
            }
        }
    }
    // merged content == master (sibling order below non-ordered parents not compared)
    let merged = snapshot_model(&model);
    let mut master_plain = c.master.clone();
    master_plain.attrs.clear();
    if canonical_unordered(&merged) != canonical_unordered(&master_plain) {
        // classify: duplicates / missing
        let mut seen: BTreeMap<String, usize> = BTreeMap::new();
        for (_, e) in walk(&model) {
            *seen.entry(element_key(&e)).or_insert(0) += 1;
        }
        let dup: Vec<&String> = seen.iter().filter(|(_, n)| **n > 1).map(|(k, _)| k).collect();
        let class = if !dup.is_empty() { "element-occurs-twice" } else if merged.count_nodes() < master_plain.count_nodes() { "element-missing" } else { "content-differs" };
        let parent_kind = dup.first().map(|k| k.rsplit('/').nth(1).unwrap_or("").split('[').next().unwrap_or("").to_string()).unwrap_or_default();
        ctx.violation(format!("merge|merged-model-is-not-the-union|{class}|below:{parent_kind}"), w(json!({"duplicated": dup, "merged": merged.rendered()})));
        return;
    }
    // membership of every element == the files that contained it
    for (_, e) in walk(&model) {
        let key = element_key(&e);
        if key.is_empty() {
            continue;
        }
        // expected set: nearest assigned ancestor-or-self
        let mut k = key.clone();
        let expect = loop {
            if let Some(s) = c.assign.get(&k) {
                break s.clone();
            }
            match k.rfind('/') {
                Some(p) if p > 0 => k.truncate(p),
                _ => break all.clone(),
            }
        };
        let got: BTreeSet<usize> = match e.file_membership() {
            Ok((_, set)) => (0..c.nfiles).filter(|f| files[*f].as_ref().is_some_and(|fl| set.contains(&fl.downgrade()))).collect(),
            Err(_) => BTreeSet::new(),
        };
        if got != expect {
            ctx.violation(format!("merge|element-attributed-to-wrong-files|{}", e.element_name()), w(json!({"element": key, "expected": expect, "got": got})));
            return;
        }
    }
    // every file written from the merged model has the content it has alone
    for f in 0..c.nfiles {
        let Some(file) = &files[f] else { continue };
        match guarded(|| file.serialize()) {
            Ok(Ok(t)) => {
                let m2 = AutosarModel::new();
                match m2.load_buffer(t.as_bytes(), "again.arxml", true) {
                    Ok(_) => {
                        let again = snapshot_model(&m2);
                        let mut alone = docs[f].clone().unwrap();
                        alone.attrs.clear();
                        if canonical_unordered(&again) != canonical_unordered(&alone) {
                            ctx.violation("merge|file-written-from-merged-model-differs-from-the-file-alone", w(json!({"file": f, "written": t})));
                            return;
                        }
                        if file.version() != c.versions[f] {
                            ctx.violation("merge|file-version-changed", w(json!({"file": f})));
                        }
                    }
                    Err(e) => {
                        ctx.violation("merge|file-written-from-merged-model-does-not-load", w(json!({"file": f, "error": e.to_string(), "written": t})));
                        return;
                    }
                }
            }
            other => {
                ctx.violation("merge|file-cannot-be-serialized", w(json!({"file": f, "result": format!("{:?}", other.map(|r| r.map(|_| ())))})));
                return;
            }
        }
    }
    for p in all_invariants(&model, &Scope::default()) {
        ctx.violation(format!("merge|invariant|{}|{}", p.prop, p.key), w(json!({"detail": p.detail})));
    }
}

fn conflict_cases(ctx: &Ctx) -> u64 {
    let h = |v: AutosarVersion| format!("<?xml version=\"1.0\" encoding=\"utf-8\"?><AUTOSAR {}>", header_attrs(v));
    let pk = |inner: &str| format!("<AR-PACKAGES><AR-PACKAGE><SHORT-NAME>p</SHORT-NAME>{inner}</AR-PACKAGE></AR-PACKAGES></AUTOSAR>");
    let base = format!("{}{}", h(V50), pk("<ELEMENTS><SYSTEM><SHORT-NAME>s</SHORT-NAME><SYSTEM-VERSION>1.0.0</SYSTEM-VERSION></SYSTEM><CAN-CLUSTER><SHORT-NAME>c</SHORT-NAME></CAN-CLUSTER><SYSTEM-TIMING><SHORT-NAME>t</SHORT-NAME><TIMING-RESOURCE><SHORT-NAME>r1</SHORT-NAME></TIMING-RESOURCE></SYSTEM-TIMING></ELEMENTS>"));
    let conflicts = [
        ("same-path-different-kind", format!("{}{}", h(V50), pk("<ELEMENTS><SYSTEM><SHORT-NAME>c</SHORT-NAME></SYSTEM></ELEMENTS>"))),
        ("divergence-below-non-splittable", format!("{}{}", h(V50), pk("<ELEMENTS><SYSTEM><SHORT-NAME>s</SHORT-NAME><SYSTEM-VERSION>2.0.0</SYSTEM-VERSION><PNC-VECTOR-LENGTH>3</PNC-VECTOR-LENGTH></SYSTEM></ELEMENTS>"))),
        ("new-package-imported-before-a-divergence-below-non-splittable", format!("{}<AR-PACKAGES><AR-PACKAGE><SHORT-NAME>p</SHORT-NAME><ELEMENTS><CAN-CLUSTER><SHORT-NAME>b0</SHORT-NAME></CAN-CLUSTER><SYSTEM-TIMING><SHORT-NAME>t</SHORT-NAME><TIMING-RESOURCE><SHORT-NAME>r2</SHORT-NAME></TIMING-RESOURCE></SYSTEM-TIMING></ELEMENTS></AR-PACKAGE><AR-PACKAGE><SHORT-NAME>z</SHORT-NAME><ELEMENTS><SYSTEM><SHORT-NAME>late</SHORT-NAME></SYSTEM></ELEMENTS></AR-PACKAGE></AR-PACKAGES></AUTOSAR>", h(V50))),
        ("differing-text", format!("{}{}", h(V50), pk("<ELEMENTS><SYSTEM><SHORT-NAME>s</SHORT-NAME><SYSTEM-VERSION>2.0.0</SYSTEM-VERSION></SYSTEM></ELEMENTS>"))),
    ];
    let mut n = 0;
    for (label, other) in conflicts {
        for order in [[0usize, 1], [1, 0]] {
            n += 1;
            let texts = [&base, &other];
            let m = AutosarModel::new();
            let first = m.load_buffer(texts[order[0]].as_bytes(), "a.arxml", true);
            if first.is_err() {
                ctx.machinery_error(format!("conflict case {label}: first file does not load"));
                continue;
            }
            let before = crate::engine::histx::canon(&m).whole();
            let second = guarded(|| m.load_buffer(texts[order[1]].as_bytes(), "b.arxml", true).map(|_| ()));
            let w = json!({"kind": "merge-conflict", "case": label, "first": texts[order[0]], "second": texts[order[1]]});
            ctx.outcome(format!("conflict:{label}:{}", match &second { Err(_) => "panic", Ok(Ok(())) => "accepted", Ok(Err(_)) => "rejected" }));
            match second {
                Err(msg) => ctx.violation(format!("conflict|panic|{label}"), json!({"w": w, "msg": msg})),
                Ok(Ok(())) => {
                    // "differing-text" is not detectable as a conflict by design of the merge (elements are compared by identity);
                    // accepted files must still give a consistent model
                    // Only the documented conflict (one path, two kinds of element) must be rejected. Whether a divergence below an
                    // element that is not splittable is noticed depends on which side has the extra element; the statement of the
                    // property covers valid partial views only, so an accepted file must merely leave a consistent model behind.
                    if label == "same-path-different-kind" {
                        ctx.violation(format!("conflict|conflicting-file-accepted|{label}"), w);
                    } else {
                        for p in all_invariants(&m, &Scope::default()) {
                            ctx.violation(format!("conflict|accepted-file-leaves-inconsistent-model|{label}|{}", p.key), json!({"w": w, "detail": p.detail}));
                        }
                    }
                }
                Ok(Err(_)) => {
                    if crate::engine::histx::canon(&m).whole() != before {
                        ctx.violation(format!("conflict|rejected-file-leaves-a-trace|{label}"), w);
                    }
                }
            }
        }
    }
    n
}

pub fn run(tier: Tier) -> i32 {
    let ctx = Ctx::new("C09", tier);
    let cases = AtomicU64::new(0);
    let mut distributions = 0u64;
    for (mname, master, vnew, vold) in masters().iter() {
        let (vnew, vold) = (*vnew, *vold);
        let sl = slots(master, vnew);
        ctx.count(&format!("slots_{mname}"), sl.len() as u64);
        for nfiles in tier.pick(vec![2usize, 3], vec![2usize, 3, 4]) {
            let cap: usize = tier.pick(20_000, 400_000);
            // enumerate assignments: each slot gets a non-empty subset of its parent's set
            let subsets: Vec<BTreeSet<usize>> = (1u32..(1 << nfiles)).map(|m| (0..nfiles).filter(|i| m & (1 << i) != 0).collect()).collect();
            let all: BTreeSet<usize> = (0..nfiles).collect();
            let mut assigns: Vec<BTreeMap<String, BTreeSet<usize>>> = vec![BTreeMap::new()];
            for s in &sl {
                let mut next = vec![];
                for a in &assigns {
                    // effective set of the parent under this partial assignment
                    let mut k = s.parent_key.clone();
                    let pset = loop {
                        if let Some(x) = a.get(&k) {
                            break x.clone();
                        }
                        match k.rfind('/') {
                            Some(p) if p > 0 => k.truncate(p),
                            _ => break all.clone(),
                        }
                    };
                    for sub in &subsets {
                        if sub.is_subset(&pset) {
                            let mut b = a.clone();
                            b.insert(s.key.clone(), sub.clone());
                            next.push(b);
                        }
                    }
                }
                assigns = next;
                if assigns.len() > cap {
                    break;
                }
            }
            if assigns.len() > cap {
                // too many distributions for this tier: this master is not explored with this number of files
                ctx.count(&format!("skipped_{mname}_{nfiles}_files"), 1);
                continue;
            }
            // every file must contain the root's first child chain; drop assignments where a file would be empty of content: fine, still valid
            distributions += assigns.len() as u64;
            let orders: Vec<Vec<usize>> = {
                // every load order
                fn perms(n: usize) -> Vec<Vec<usize>> {
                    if n == 1 {
                        return vec![vec![0]];
                    }
                    let mut out = vec![];
                    for p in perms(n - 1) {
                        for i in 0..=p.len() {
                            let mut q = p.clone();
                            q.insert(i, n - 1);
                            out.push(q);
                        }
                    }
                    out
                }
                perms(nfiles)
            };
            let version_sets: Vec<Vec<AutosarVersion>> = if nfiles == 2 { vec![vec![vnew, vnew], vec![vnew, vold], vec![vold, vnew]] } else { vec![(0..nfiles).map(|i| if i % 2 == 0 { vnew } else { vold }).collect()] };
            let reverse_sets: Vec<Vec<bool>> = if nfiles == 2 { vec![vec![false, false], vec![false, true], vec![true, true]] } else { vec![(0..nfiles).map(|i| i % 2 == 1).collect(), vec![false; nfiles]] };
            if *mname == "two-kinds-every-sibling-order" {
                // every order of the children in each of two files (24 x 24), same version, both load orders
                if nfiles == 2 {
                    assigns.par_iter().for_each(|a| {
                        for order in &orders {
                            for p0 in 0..24 {
                                for p1 in 0..24 {
                                    cases.fetch_add(1, Ordering::Relaxed);
                                    run_case(&ctx, &Case { master_name: mname, master, nfiles, assign: a.clone(), versions: vec![V50, V50], reverse: vec![false, false], order: order.clone(), elements_perm: vec![p0, p1] });
                                }
                            }
                        }
                    });
                }
                continue;
            }
            assigns.par_iter().for_each(|a| {
                for order in &orders {
                    for versions in &version_sets {
                        for reverse in &reverse_sets {
                            cases.fetch_add(1, Ordering::Relaxed);
                            run_case(&ctx, &Case { master_name: mname, master, nfiles, assign: a.clone(), versions: versions.clone(), reverse: reverse.clone(), order: order.clone(), elements_perm: vec![0; nfiles] });
                        }
                    }
                }
            });
            if ctx.elapsed() > tier.pick(40.0, 1500.0) {
                ctx.count("masters_cut_by_time_cap", 1);
                break;
            }
        }
    }
    let conflicts = conflict_cases(&ctx);
    let n = cases.load(Ordering::Relaxed);
    ctx.eval(n + conflicts);
    ctx.count("distributions", distributions);
    ctx.count("merges", n);
    ctx.count("conflict_cases", conflicts);
    ctx.outcome(format!("merges>0:{}", n > 0));
    ctx.sample(json!({"master": "packages-and-elements", "assignment": "/AR-PACKAGES/AR-PACKAGE[p1]/ELEMENTS/SYSTEM[s1] -> {0}, .../CAN-CLUSTER[c1] -> {0,1}, ...", "load_order": [1, 0]}));
    ctx.assume("a child may have its own file set iff its parent's type is splittable_in(version); SHORT-NAME and DEFINITION-REF always follow their parent");
    ctx.assume("sibling order below parents that are not is_ordered() is not part of the compared content");
    let cov = json!({
        "states": distributions,
        "transitions": n,
        "traces_validated_against_impl": n,
        "files": tier.pick("2 and 3", "2, 3 and 4"),
        "exhaustive": true,
    });
    ctx.finish("model_checking", cov)
}

pub fn replay(v: &Value) -> i32 {
    let w = &v["witness"];
    let files: Vec<String> = w["files"].as_array().map(|a| a.iter().filter_map(|x| x.as_str().map(|s| s.to_string())).collect()).unwrap_or_default();
    let order: Vec<usize> = w["load_order"].as_array().map(|a| a.iter().filter_map(|x| x.as_u64().map(|n| n as usize)).collect()).unwrap_or_default();
    let m = AutosarModel::new();
    for f in order {
        println!("load file {f}: {:?}", m.load_buffer(files[f].as_bytes(), format!("f{f}.arxml"), true).map(|_| ()).map_err(|e| e.to_string()));
    }
    println!("merged model: {}", snapshot_model(&m).rendered());
    1
}
