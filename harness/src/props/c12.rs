//! C12 extras: the value-level and name-level API with arbitrary argument texts. Every string of up to L characters
//! over an alphabet that contains digits, radix and sign characters, separators and 2-, 3- and 4-byte UTF-8
//! characters is passed to every public function that takes or interprets a text; nothing may panic or block.
use crate::common::*;
use autosar_data::*;
use autosar_data_specification::*;
use rayon::prelude::*;
use serde_json::json;
use std::str::FromStr;

const ALPHABET: [char; 20] = ['0', '1', '9', 'x', 'X', 'b', 'B', 'o', '-', '+', '.', 'e', '_', ' ', '/', 'a', 't', '\u{b5}', '\u{20ac}', '\u{1f600}'];

fn strings(max_len: usize) -> Vec<String> {
    let mut out = vec![String::new()];
    let mut layer = vec![String::new()];
    for _ in 0..max_len {
        let mut next = Vec::with_capacity(layer.len() * ALPHABET.len());
        for s in &layer {
            for c in ALPHABET {
                let mut t = s.clone();
                t.push(c);
                next.push(t);
            }
        }
        out.extend(next.iter().cloned());
        layer = next;
    }
    // texts at and beyond the limits of the numeric types, long digit runs in names, long repetitions
    for extra in [
        "18446744073709551615", "18446744073709551616", "-9223372036854775808", "-9223372036854775809", "340282366920938463463374607431768211456", "a18446744073709551615",
        "a18446744073709551616", "a184467440737095516150000", "a_99999999999999999999999999999999999999999", "0xffffffffffffffffffffffffffffffffffffffff", "0x", "0b", "0B2",
        "1e400", "-1e400", "1e-400", "0.1e+", "1e99999999999999999999", ".", "-", "+", "INF", "-INF", "NaN", "0b1111111111111111111111111111111111111111111111111111111111111111111111",
        "07777777777777777777777777777777", "/a/b/c/d/e/f/g/h/i/j/k/l/m/n/o/p/q/r/s/t/u/v/w/x/y/z", "//", "/a//b", "a/", "\u{0}",
    ] {
        out.push(extra.to_string());
    }
    out.push("a".repeat(128));
    out.push("a".repeat(129));
    out.push("9".repeat(400));
    out.push("\u{20ac}".repeat(43));
    out
}

fn lenient_doc(index_a: &str, index_b: &str, name: &str) -> String {
    let esc = |s: &str| s.replace('&', "&amp;").replace('<', "&lt;");
    format!(
        "<?xml version=\"1.0\" encoding=\"utf-8\"?><AUTOSAR {}><AR-PACKAGES><AR-PACKAGE UUID=\"{}\" T=\"{}\"><SHORT-NAME>p</SHORT-NAME><ELEMENTS><ECUC-MODULE-CONFIGURATION-VALUES><SHORT-NAME>m</SHORT-NAME><CONTAINERS><ECUC-CONTAINER-VALUE><SHORT-NAME>k1</SHORT-NAME><INDEX>{}</INDEX></ECUC-CONTAINER-VALUE><ECUC-CONTAINER-VALUE><SHORT-NAME>k0</SHORT-NAME><INDEX>{}</INDEX></ECUC-CONTAINER-VALUE><ECUC-CONTAINER-VALUE><SHORT-NAME>{}</SHORT-NAME></ECUC-CONTAINER-VALUE></CONTAINERS></ECUC-MODULE-CONFIGURATION-VALUES></ELEMENTS></AR-PACKAGE></AR-PACKAGES></AUTOSAR>",
        crate::common::tree::header_attrs(AutosarVersion::Autosar_00050),
        esc(name),
        esc(index_a),
        esc(index_a),
        esc(index_b),
        esc(name)
    )
}

/// returns (texts, calls)
pub fn value_api_sweep(ctx: &Ctx, tier: Tier) -> (u64, u64) {
    let texts = strings(tier.pick(3, 4));
    let n_texts = texts.len() as u64;
    let calls: u64 = texts
        .par_chunks(256)
        .map(|chunk| {
            // one small model per chunk: an element of every character-data kind, an attribute, a reference
            let m = AutosarModel::new();
            let _ = m.create_file("v.arxml", AutosarVersion::Autosar_00050);
            let pkgs = m.root_element().create_sub_element(ElementName::ArPackages).unwrap();
            let pkg = pkgs.create_named_sub_element(ElementName::ArPackage, "p").unwrap();
            let els = pkg.create_sub_element(ElementName::Elements).unwrap();
            let sys = els.create_named_sub_element(ElementName::System, "s").unwrap();
            let category = sys.create_sub_element(ElementName::Category).unwrap();
            let pnc = sys.create_sub_element(ElementName::PncVectorLength).unwrap();
            let fe = sys.create_sub_element(ElementName::FibexElements).unwrap();
            let r = fe.create_sub_element(ElementName::FibexElementRefConditional).unwrap().create_sub_element(ElementName::FibexElementRef).unwrap();
            let l2 = pkg.create_sub_element(ElementName::Desc).unwrap().create_sub_element(ElementName::L2).unwrap();
            let short_name = sys.get_sub_element(ElementName::ShortName).unwrap();
            let mut n = 0u64;
            for t in chunk {
                let mut call = |what: &str, f: &mut dyn FnMut()| {
                    n += 1;
                    if let Err(msg) = guarded(|| f()) {
                        let kind = if msg.contains("self-deadlock") { "self-deadlock" } else { "panic" };
                        ctx.violation(format!("{kind}|value-api|{what}|{}", last_panic_loc()), json!({"kind": "value-api", "call": what, "text": t, "msg": msg}));
                    }
                };
                let cd = CharacterData::String(t.clone());
                call("CharacterData::parse_integer", &mut || {
                    let _ = cd.parse_integer::<u8>();
                    let _ = cd.parse_integer::<i8>();
                    let _ = cd.parse_integer::<u16>();
                    let _ = cd.parse_integer::<i16>();
                    let _ = cd.parse_integer::<u32>();
                    let _ = cd.parse_integer::<i32>();
                    let _ = cd.parse_integer::<u64>();
                    let _ = cd.parse_integer::<i64>();
                    let _ = cd.parse_integer::<usize>();
                    let _ = cd.parse_integer::<isize>();
                });
                call("CharacterData::parse_float", &mut || {
                    let _ = cd.parse_float();
                });
                call("CharacterData::parse_bool", &mut || {
                    let _ = cd.parse_bool();
                });
                call("CharacterData::accessors", &mut || {
                    let _ = (cd.enum_value(), cd.string_value(), cd.unsigned_integer_value(), cd.float_value(), cd.to_string(), format!("{cd:?}"));
                    let _ = cd.cmp(&CharacterData::String("1".into()));
                    let _ = cd == CharacterData::UnsignedInteger(1);
                });
                call("from_str of specification names", &mut || {
                    let _ = ElementName::from_str(t);
                    let _ = AttributeName::from_str(t);
                    let _ = EnumItem::from_str(t);
                    let _ = AutosarVersion::from_str(t);
                    let _ = ElementName::from_bytes(t.as_bytes());
                    let _ = AttributeName::from_bytes(t.as_bytes());
                    let _ = EnumItem::from_bytes(t.as_bytes());
                });
                call("set_character_data", &mut || {
                    for e in [&category, &pnc, &r, &l2, &short_name] {
                        let _ = e.set_character_data(t.as_str());
                        let _ = e.character_data().map(|c| (c.parse_integer::<u64>(), c.parse_float(), c.parse_bool()));
                    }
                    let _ = short_name.set_character_data("s");
                });
                call("set_attribute_string", &mut || {
                    let _ = sys.set_attribute_string(AttributeName::Uuid, t);
                    let _ = sys.set_attribute_string(AttributeName::T, t);
                    let _ = sys.set_attribute_string(AttributeName::S, t);
                    let _ = r.set_attribute_string(AttributeName::Dest, t);
                    let _ = l2.set_attribute_string(AttributeName::L, t);
                    let _ = sys.attribute_value(AttributeName::T).map(|c| c.to_string());
                });
                call("names and paths", &mut || {
                    let _ = sys.set_item_name(t);
                    let _ = sys.set_item_name("s");
                    if let Ok(e) = els.create_named_sub_element(ElementName::CanCluster, t) {
                        let _ = e.path();
                        let _ = els.remove_sub_element(e);
                    }
                    let _ = els.get_or_create_named_sub_element(ElementName::CanCluster, t).map(|e| els.remove_sub_element(e));
                    let _ = m.get_element_by_path(t);
                    let _ = m.get_references_to(t);
                });
                call("character content and comments", &mut || {
                    let _ = l2.insert_character_content_item(t, 0);
                    let _ = l2.remove_character_content_item(0);
                    sys.set_comment(Some(t.clone()));
                    let _ = sys.serialize();
                    sys.set_comment(None);
                });
                call("file names", &mut || {
                    if let Ok(f) = m.create_file(t, AutosarVersion::Autosar_00050) {
                        let _ = f.set_filename("w.arxml");
                        let _ = f.set_filename(t);
                        m.remove_file(&f);
                    }
                });
                call("lenient load, compare, sort", &mut || {
                    let doc = lenient_doc(t, "2", if t.is_empty() { "z" } else { t });
                    let m2 = AutosarModel::new();
                    if m2.load_buffer(doc.as_bytes(), "l.arxml", false).is_ok() {
                        let all: Vec<Element> = m2.elements_dfs().map(|(_, e)| e).collect();
                        for a in &all {
                            for b in &all {
                                let _ = a.cmp(b);
                            }
                        }
                        m2.sort();
                        let _ = m2.files().next().map(|f| f.serialize());
                        let _ = m2.check_references();
                    }
                    let doc = lenient_doc("1", t, "z");
                    let m3 = AutosarModel::new();
                    if m3.load_buffer(doc.as_bytes(), "l.arxml", false).is_ok() {
                        m3.sort();
                    }
                });
            }
            let ev = crate::common::seqhook::take_events();
            if !ev.is_empty() {
                ctx.violation(format!("self-conflict|value-api|{}", ev[0].site), json!({"kind": "value-api", "events": format!("{ev:?}")}));
            }
            n
        })
        .sum();
    ctx.count("value_api_texts", n_texts);
    ctx.count("value_api_calls", calls);
    ctx.assume("value-API sweep: every string of up to 3 (quick) / 4 (thorough) characters over 20 characters incl. 2-, 3- and 4-byte UTF-8");
    (n_texts, calls)
}

/// The specification crate's functions with every argument value that their documentation does not exclude: all u32 with
/// at most two bits set plus complements and extremes as version masks and version values, every element type with its
/// own listed names and index lists. (Index lists other than those returned by `find_sub_element` are outside the
/// documented precondition of the `get_sub_element_*` functions and are not passed.)
pub fn spec_api_sweep(ctx: &Ctx) -> u64 {
    use autosar_data_specification::*;
    let mut masks: Vec<u32> = vec![0, u32::MAX, u32::MAX - 1, 0x7fff_ffff, 0x8000_0000, 0x001f_ffff, 0x0020_0000, 0x003f_ffff];
    for i in 0..32 {
        masks.push(1 << i);
        masks.push(!(1u32 << i));
        for j in (i + 1)..32 {
            masks.push((1 << i) | (1 << j));
        }
    }
    let mut n = 0u64;
    let mut call = |what: &str, arg: String, f: &mut dyn FnMut()| {
        n += 1;
        if let Err(msg) = guarded(|| f()) {
            ctx.violation(format!("panic|spec-api|{what}|{}", last_panic_loc()), json!({"kind": "spec-api", "call": what, "argument": arg, "msg": msg}));
        }
    };
    for m in &masks {
        call("expand_version_mask", format!("{m:#x}"), &mut || {
            let v = expand_version_mask(*m);
            // every returned version is in the mask
            for ver in v {
                assert!(ver as u32 & *m != 0, "verif: expand_version_mask returned a version outside the mask");
            }
        });
        call("AutosarVersion::from_val", format!("{m:#x}"), &mut || {
            let _ = AutosarVersion::from_val(*m);
        });
        call("AutosarVersion::compatible", format!("{m:#x}"), &mut || {
            for v in crate::common::specgraph::VERSIONS.iter() {
                let _ = v.compatible(*m);
            }
        });
    }
    let types: Vec<ElementType> = ElementType::verif_all().collect();
    let some_items = [EnumItem::CanCluster, EnumItem::Abstract, EnumItem::En];
    let few_masks = [0u32, u32::MAX, 0x8000_0000, 0x0020_0000, 1];
    let m: u64 = types
        .par_iter()
        .map(|t| {
            let mut k = 0u64;
            let r = guarded(|| {
                for (name, st, mask, _) in t.sub_element_spec_iter() {
                    for fm in few_masks.iter().chain([mask].iter()) {
                        k += 1;
                        if let Some((_, idx)) = t.find_sub_element(name, *fm) {
                            let _ = (t.get_sub_element_version_mask(&idx), t.get_sub_element_multiplicity(&idx), t.get_sub_element_container_mode(&idx), t.find_common_group(&idx, &idx).content_mode());
                        }
                    }
                    let _ = (st.is_named(), st.is_ref(), st.content_mode(), st.chardata_spec().is_some(), st.is_ordered(), st.splittable(), st.std_restriction());
                    let _ = t.reference_dest_value(&st);
                }
                for (an, _, _) in t.attribute_spec_iter() {
                    k += 1;
                    let _ = t.find_attribute_spec(an);
                }
                for v in crate::common::specgraph::VERSIONS.iter() {
                    let _ = (t.is_named_in_version(*v), t.splittable_in(*v));
                }
                for it in some_items {
                    let _ = t.verify_reference_dest(it);
                }
                let _ = format!("{t:?}");
            });
            if let Err(msg) = r {
                ctx.violation(format!("panic|spec-api|element-type-functions|{}", last_panic_loc()), json!({"kind": "spec-api", "type": format!("{t:?}"), "msg": msg}));
            }
            k
        })
        .sum();
    ctx.count("spec_api_calls", n + m);
    n + m
}
