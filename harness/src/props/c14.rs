//! C14 — sorting is a content-preserving, idempotent canonicalization. Permutation enumeration: every
//! sub-multiset (up to a size) of an item pool per scenario, in every permutation.
use crate::common::invariants::*;
use crate::common::tree::*;
use crate::common::*;
use autosar_data::*;
use rayon::prelude::*;
use serde_json::{json, Value};
use std::collections::{BTreeMap, BTreeSet, HashSet};
use std::sync::atomic::{AtomicU64, Ordering};
use std::sync::Mutex;

const V: AutosarVersion = AutosarVersion::Autosar_00050;

#[derive(Clone, Debug, PartialEq, Eq, PartialOrd, Ord, Hash)]
enum Item {
    /// identifiable element of a kind with a name
    Named(&'static str, &'static str),
    /// ECUC-CONTAINER-VALUE with name and optional INDEX text
    Container(&'static str, Option<&'static str>),
    /// ECUC-NUMERICAL-PARAM-VALUE: DEFINITION-REF, INDEX, VALUE, comment
    Param(Option<&'static str>, Option<&'static str>, &'static str, Option<&'static str>),
    /// FIBEX-ELEMENT-REF-CONDITIONAL with a reference: DEST, text, comment
    Ref(&'static str, &'static str, Option<&'static str>),
    /// DOC-REVISION with REVISION-LABEL (ordered parent)
    DocRev(&'static str),
    /// SW-SERVICE-ARG in ARGUMENTS (ordered parent)
    Arg(&'static str),
    /// SW-SERVICE-ARG in ARGUMENTS (ordered parent) with a LONG-NAME whose L-4 entries are created in the given order
    ArgL(&'static str, &'static [&'static str]),
    /// INCLUDED-DATA-TYPE-SET (no name, no key) holding DATA-TYPE-REFs in the given (possibly unsorted) order
    TypeSet(&'static [&'static str]),
}

struct Scenario {
    name: &'static str,
    pool: Vec<Item>,
    ordered: bool,
    /// items may repeat in a multiset (non-identifiable kinds)
    repeat: bool,
}

fn scenarios() -> Vec<Scenario> {
    let names = ["a", "a1", "a2", "a10", "a1b", "b"];
    vec![
        Scenario { name: "packages", pool: names.iter().map(|n| Item::Named("AR-PACKAGE", n)).collect(), ordered: false, repeat: false },
        Scenario {
            name: "elements-bag-mixed-kinds",
            pool: vec![
                Item::Named("CAN-CLUSTER", "a2"),
                Item::Named("SYSTEM", "a10"),
                Item::Named("CAN-CLUSTER", "a1b"),
                Item::Named("SYSTEM", "a1"),
                Item::Named("ECU-INSTANCE", "b"),
                Item::Named("CAN-CLUSTER", "a"),
            ],
            ordered: false,
            repeat: false,
        },
        Scenario {
            name: "containers-with-index",
            pool: vec![
                Item::Container("a2", None),
                Item::Container("a10", Some("0")),
                Item::Container("a1", Some("2")),
                Item::Container("b", Some("10")),
                Item::Container("a", Some("0x2")),
                Item::Container("a1b", None),
            ],
            ordered: false,
            repeat: false,
        },
        Scenario {
            name: "parameter-values-by-definition-ref",
            pool: vec![
                Item::Param(Some("/d/a"), None, "1", None),
                Item::Param(Some("/d/b"), None, "1", None),
                Item::Param(Some("/d/a10"), None, "2", None),
                Item::Param(Some("/d/a"), Some("1"), "1", None),
                Item::Param(Some("/d/a"), None, "1", Some("c1")),
                Item::Param(None, None, "3", None),
                Item::Param(Some("/d/a"), None, "7", None),
            ],
            ordered: false,
            repeat: true,
        },
        Scenario {
            name: "references-by-dest",
            pool: vec![
                Item::Ref("CAN-CLUSTER", "/x/a", None),
                Item::Ref("ECU-INSTANCE", "/x/a", None),
                Item::Ref("CAN-CLUSTER", "/x/b", None),
                Item::Ref("CAN-CLUSTER", "/x/a", Some("cmt")),
                Item::Ref("CAN-FRAME", "/x/a10", None),
            ],
            ordered: false,
            repeat: true,
        },
        Scenario {
            name: "keyless-siblings-with-unsorted-content",
            pool: vec![Item::TypeSet(&["/T/B", "/T/A"]), Item::TypeSet(&["/T/A", "/T/C"]), Item::TypeSet(&["/T/A"]), Item::TypeSet(&["/T/C", "/T/B", "/T/A"]), Item::TypeSet(&["/T/A", "/T/B"])],
            ordered: false,
            repeat: true,
        },
        Scenario { name: "ordered-doc-revisions", pool: vec![Item::DocRev("2.0.0"), Item::DocRev("1.0.0"), Item::DocRev("10.0.0"), Item::DocRev("1.0.0;b")], ordered: true, repeat: true },
        Scenario { name: "ordered-arguments", pool: names.iter().take(5).map(|n| Item::Arg(n)).collect(), ordered: true, repeat: false },
        // children of an ordered parent keep their places, but what is below each of them must be sorted all the same
        Scenario {
            name: "ordered-arguments-with-unsorted-content",
            pool: vec![Item::ArgL("a1", &["EN", "DE"]), Item::ArgL("a2", &["FR", "DE", "EN"]), Item::ArgL("a10", &["DE", "EN"]), Item::ArgL("b", &["EN", "DE"])],
            ordered: true,
            repeat: false,
        },
    ]
}

/// build the parent for a scenario in a fresh model; returns (model, file, parent)
fn build_parent(s: &Scenario) -> (AutosarModel, ArxmlFile, Element) {
    let m = AutosarModel::new();
    let f = m.create_file("x.arxml", V).unwrap();
    let root = m.root_element();
    let parent = match s.name {
        "packages" => root.create_sub_element(ElementName::ArPackages).unwrap(),
        "ordered-doc-revisions" => root.create_sub_element(ElementName::AdminData).unwrap().create_sub_element(ElementName::DocRevisions).unwrap(),
        _ => {
            let els = root.create_sub_element(ElementName::ArPackages).unwrap().create_named_sub_element(ElementName::ArPackage, "x").unwrap().create_sub_element(ElementName::Elements).unwrap();
            match s.name {
                "elements-bag-mixed-kinds" => els,
                "containers-with-index" => els.create_named_sub_element(ElementName::EcucModuleConfigurationValues, "cfg").unwrap().create_sub_element(ElementName::Containers).unwrap(),
                "parameter-values-by-definition-ref" => els
                    .create_named_sub_element(ElementName::EcucModuleConfigurationValues, "cfg")
                    .unwrap()
                    .create_sub_element(ElementName::Containers)
                    .unwrap()
                    .create_named_sub_element(ElementName::EcucContainerValue, "cont")
                    .unwrap()
                    .create_sub_element(ElementName::ParameterValues)
                    .unwrap(),
                "references-by-dest" => els.create_named_sub_element(ElementName::System, "sys").unwrap().create_sub_element(ElementName::FibexElements).unwrap(),
                "ordered-arguments" | "ordered-arguments-with-unsorted-content" => els.create_named_sub_element(ElementName::BswModuleEntry, "entry").unwrap().create_sub_element(ElementName::Arguments).unwrap(),
                "keyless-siblings-with-unsorted-content" => els
                    .create_named_sub_element(ElementName::ApplicationSwComponentType, "swc")
                    .unwrap()
                    .create_sub_element(ElementName::InternalBehaviors)
                    .unwrap()
                    .create_named_sub_element(ElementName::SwcInternalBehavior, "ib")
                    .unwrap()
                    .create_sub_element(ElementName::IncludedDataTypeSets)
                    .unwrap(),
                other => panic!("unknown scenario {other}"),
            }
        }
    };
    (m, f, parent)
}

fn create_item(parent: &Element, it: &Item) -> Result<Element, AutosarDataError> {
    match it {
        Item::Named(kind, name) => parent.create_named_sub_element(kind.parse().unwrap(), name),
        Item::Container(name, index) => {
            let c = parent.create_named_sub_element(ElementName::EcucContainerValue, name)?;
            if let Some(i) = index {
                c.create_sub_element(ElementName::Index)?.set_character_data(*i)?;
            }
            // a nested level that must be sorted too
            let subs = c.create_sub_element(ElementName::SubContainers)?;
            subs.create_named_sub_element(ElementName::EcucContainerValue, "z2")?;
            subs.create_named_sub_element(ElementName::EcucContainerValue, "z10")?;
            Ok(c)
        }
        Item::Param(defref, index, value, comment) => {
            let p = parent.create_sub_element(ElementName::EcucNumericalParamValue)?;
            if let Some(d) = defref {
                let r = p.create_sub_element(ElementName::DefinitionRef)?;
                r.set_attribute(AttributeName::Dest, EnumItem::EcucIntegerParamDef)?;
                r.set_character_data(*d)?;
            }
            if let Some(i) = index {
                p.create_sub_element(ElementName::Index)?.set_character_data(*i)?;
            }
            p.create_sub_element(ElementName::Value)?.set_character_data(*value)?;
            p.set_comment(comment.map(|c| c.to_string()));
            Ok(p)
        }
        Item::Ref(dest, text, comment) => {
            let c = parent.create_sub_element(ElementName::FibexElementRefConditional)?;
            let r = c.create_sub_element(ElementName::FibexElementRef)?;
            r.set_attribute(AttributeName::Dest, dest.parse::<EnumItem>().unwrap())?;
            r.set_character_data(*text)?;
            c.set_comment(comment.map(|c| c.to_string()));
            Ok(c)
        }
        Item::DocRev(label) => {
            let d = parent.create_sub_element(ElementName::DocRevision)?;
            d.create_sub_element(ElementName::RevisionLabel)?.set_character_data(*label)?;
            Ok(d)
        }
        Item::Arg(name) => parent.create_named_sub_element(ElementName::SwServiceArg, name),
        Item::ArgL(name, langs) => {
            let a = parent.create_named_sub_element(ElementName::SwServiceArg, name)?;
            let ln = a.create_sub_element(ElementName::LongName)?;
            for l in langs.iter() {
                let l4 = ln.create_sub_element(ElementName::L4)?;
                l4.set_attribute_string(AttributeName::L, l)?;
                l4.insert_character_content_item("same text", 0)?;
            }
            Ok(a)
        }
        Item::TypeSet(refs) => {
            let set = parent.create_sub_element(ElementName::IncludedDataTypeSet)?;
            let list = set.create_sub_element(ElementName::DataTypeRefs)?;
            for r in refs.iter() {
                let e = list.create_sub_element(ElementName::DataTypeRef)?;
                e.set_attribute(AttributeName::Dest, EnumItem::ImplementationDataType)?;
                e.set_character_data(*r)?;
            }
            Ok(set)
        }
    }
}

fn multisets(pool: &[Item], max: usize, repeat: bool) -> Vec<Vec<Item>> {
    // all non-decreasing index sequences (with or without repetition) of length 1..=max
    let mut out = vec![];
    fn rec(pool: &[Item], start: usize, left: usize, repeat: bool, cur: &mut Vec<usize>, out: &mut Vec<Vec<Item>>) {
        if !cur.is_empty() {
            out.push(cur.iter().map(|i| pool[*i].clone()).collect());
        }
        if left == 0 {
            return;
        }
        for i in start..pool.len() {
            cur.push(i);
            rec(pool, if repeat { i } else { i + 1 }, left - 1, repeat, cur, out);
            cur.pop();
        }
    }
    rec(pool, 0, max, repeat, &mut vec![], &mut out);
    out.sort_by_key(|m| m.len());
    out
}

fn permutations(items: &[Item]) -> Vec<Vec<Item>> {
    // distinct permutations of a multiset
    let mut set: BTreeSet<Vec<Item>> = BTreeSet::new();
    fn heap(k: usize, a: &mut Vec<Item>, out: &mut BTreeSet<Vec<Item>>) {
        if k <= 1 {
            out.insert(a.clone());
            return;
        }
        for i in 0..k {
            heap(k - 1, a, out);
            if k % 2 == 0 {
                a.swap(i, k - 1);
            } else {
                a.swap(0, k - 1);
            }
        }
    }
    let mut a = items.to_vec();
    let n = a.len();
    heap(n, &mut a, &mut set);
    set.into_iter().collect()
}

fn strip_comments(text: &str) -> String {
    let mut out = String::new();
    let mut rest = text;
    while let Some(p) = rest.find("<!--") {
        out.push_str(&rest[..p]);
        match rest[p..].find("-->") {
            Some(e) => rest = &rest[p + e + 3..],
            None => {
                rest = "";
                break;
            }
        }
    }
    out.push_str(rest);
    out.lines().map(|l| l.trim_end()).filter(|l| !l.trim().is_empty()).collect::<Vec<_>>().join("\n")
}

struct PermResult {
    text_no_comments: Option<String>,
    problems: Vec<(String, String)>,
}

fn run_perm(s: &Scenario, perm: &[Item]) -> PermResult {
    let mut problems = vec![];
    let (m, f, parent) = build_parent(s);
    for it in perm {
        if let Err(e) = create_item(&parent, it) {
            return PermResult { text_no_comments: None, problems: vec![("MACHINERY".into(), format!("cannot create {it:?}: {e}"))] };
        }
    }
    let before_children: Vec<Element> = parent.sub_elements().collect();
    let before_snaps: Vec<Node> = before_children.iter().map(snapshot).collect();
    let all_before: HashSet<Element> = walk(&m).into_iter().map(|(_, e)| e).collect();
    let whole_before = {
        let mut v: Vec<String> = walk(&m).iter().map(|(_, e)| format!("{}{:?}{:?}{:?}", e.element_name(), e.character_data(), e.attributes().map(|a| format!("{a:?}")).collect::<Vec<_>>(), e.comment())).collect();
        v.sort();
        v
    };
    if let Err(msg) = guarded(|| m.sort()) {
        problems.push((format!("panic|sort|{}", last_panic_loc()), msg));
        return PermResult { text_no_comments: None, problems };
    }
    let after_children: Vec<Element> = parent.sub_elements().collect();
    let all_after: HashSet<Element> = walk(&m).into_iter().map(|(_, e)| e).collect();
    if all_before != all_after {
        problems.push(("content|element-objects-lost-or-replaced".into(), String::new()));
    }
    let whole_after = {
        let mut v: Vec<String> = walk(&m).iter().map(|(_, e)| format!("{}{:?}{:?}{:?}", e.element_name(), e.character_data(), e.attributes().map(|a| format!("{a:?}")).collect::<Vec<_>>(), e.comment())).collect();
        v.sort();
        v
    };
    if whole_before != whole_after {
        problems.push(("content|values-attributes-or-comments-changed".into(), String::new()));
    }
    let mut a: Vec<String> = before_snaps.iter().map(|n| canonical_unordered(n)).collect();
    let mut b: Vec<String> = after_children.iter().map(|e| canonical_unordered(&snapshot(e))).collect();
    a.sort();
    b.sort();
    if a != b {
        problems.push(("content|children-changed".into(), String::new()));
    }
    if s.ordered && after_children != before_children {
        problems.push(("order|children-of-ordered-parent-were-reordered".into(), String::new()));
    }
    for p in all_invariants(&m, &Scope::default()) {
        problems.push((format!("invariant|{}|{}", p.prop, p.key), p.detail));
    }
    let text = match f.serialize() {
        Ok(t) => t,
        Err(e) => {
            problems.push(("serialize-fails-after-sort".into(), e.to_string()));
            return PermResult { text_no_comments: None, problems };
        }
    };
    let m2 = AutosarModel::new();
    match m2.load_buffer(text.as_bytes(), "y.arxml", true) {
        Ok((_, w)) if w.is_empty() => {}
        other => problems.push(("model-invalid-after-sort".into(), format!("{:?}", other.map(|(_, w)| w.len()).map_err(|e| e.to_string())))),
    }
    // idempotence
    m.sort();
    match f.serialize() {
        Ok(t2) if t2 == text => {}
        _ => problems.push(("idempotence|second-sort-changes-the-result".into(), String::new())),
    }
    // sorted everywhere: sorting any single element of the sorted model changes nothing
    for (_, e) in walk(&m) {
        e.sort();
    }
    match f.serialize() {
        Ok(t3) if t3 == text => {}
        _ => problems.push(("completeness|sorting-an-element-of-the-sorted-model-still-changes-it".into(), String::new())),
    }
    PermResult { text_no_comments: Some(strip_comments(&text)), problems }
}

/// rendering in which the order of children below non-ordered parents does not matter (children are sorted by sort())
fn canonical_unordered(n: &Node) -> String {
    let mut kids: Vec<String> = n.children().map(canonical_unordered).collect();
    kids.sort();
    let texts: Vec<String> = n.items.iter().filter_map(|i| if let crate::common::tree::Item::Text(v) = i { Some(format!("{v:?}")) } else { None }).collect();
    format!("<{} {:?} {:?} {:?}>{}", n.name, n.attrs, n.comment, texts, kids.join(""))
}


// ------------------------------------------------------------------------------------------------ comparator axioms

/// every identifier of up to `max_len` characters over {a, b, 0, 1, 2, _} plus names with long and extreme digit runs
fn name_universe(max_len: usize) -> Vec<String> {
    let first = ['a', 'b'];
    let rest = ['a', 'b', '0', '1', '2', '_'];
    let mut out: Vec<String> = vec![];
    let mut layer: Vec<String> = first.iter().map(|c| c.to_string()).collect();
    for _ in 1..=max_len {
        out.extend(layer.iter().cloned());
        let mut next = vec![];
        for s in &layer {
            for c in rest {
                next.push(format!("{s}{c}"));
            }
        }
        layer = next;
    }
    for extra in [
        "a20", "a100", "a009", "a010", "a0000000000000000001", "a18446744073709551614", "a18446744073709551615", "a18446744073709551616", "a99999999999999999999",
        "a184467440737095516150000", "a1_18446744073709551616", "b00000000000000000000000000000000000000001", "A1", "A", "a1B2", "a12b", "a1b2",
    ] {
        out.push(extra.to_string());
    }
    out.sort();
    out.dedup();
    out
}

/// `Element::cmp` decides every sort. On a universe of elements (all short names; containers with every combination of
/// name and INDEX text) the complete comparison matrix is computed with the real elements and checked to be a total
/// preorder in which only identical keys compare equal: reflexive, antisymmetric, transitive. A comparator with these
/// properties makes the result of a sort independent of the previous order; one without them does not.
pub fn comparator_axioms(ctx: &Ctx, tier: Tier) -> u64 {
    use std::cmp::Ordering as O;
    let m = AutosarModel::new();
    let _ = m.create_file("cmp.arxml", V);
    let pkgs = m.root_element().create_sub_element(ElementName::ArPackages).unwrap();
    let mut universe: Vec<(String, Element)> = vec![];
    // (1) packages with every name
    for n in name_universe(tier.pick(3, 4)) {
        match pkgs.create_named_sub_element(ElementName::ArPackage, &n) {
            Ok(e) => universe.push((format!("AR-PACKAGE {n}"), e)),
            Err(e) => ctx.machinery_error(format!("comparator universe: cannot create package {n}: {e}")),
        }
    }
    let n_names = universe.len();
    // (2) containers: name x INDEX text, one parent per INDEX variant so that names may repeat
    let host = pkgs.create_named_sub_element(ElementName::ArPackage, "zhost").unwrap().create_sub_element(ElementName::Elements).unwrap();
    let mut containers: Vec<(String, Element)> = vec![];
    let index_texts: [Option<&str>; 9] = [None, Some("0"), Some("1"), Some("2"), Some("10"), Some("0x2"), Some("02"), Some("0b10"), Some("18446744073709551615")];
    for (k, idx) in index_texts.iter().enumerate() {
        let cfg = host.create_named_sub_element(ElementName::EcucModuleConfigurationValues, &format!("cfg{k}")).unwrap();
        let cs = cfg.create_sub_element(ElementName::Containers).unwrap();
        for n in ["a1", "a2", "a10", "a1b", "b"] {
            let c = cs.create_named_sub_element(ElementName::EcucContainerValue, n).unwrap();
            if let Some(t) = idx {
                if let Err(e) = c.create_sub_element(ElementName::Index).and_then(|i| i.set_character_data(*t)) {
                    ctx.machinery_error(format!("comparator universe: INDEX {t}: {e}"));
                }
            }
            containers.push((format!("ECUC-CONTAINER-VALUE {n} index={idx:?}"), c));
        }
    }
    // (3) parameter values: DEFINITION-REF x INDEX x VALUE; (4) reference conditionals: DEST x text
    let mut params: Vec<(String, Element)> = vec![];
    let mut refs: Vec<(String, Element)> = vec![];
    {
        let cfg = host.create_named_sub_element(ElementName::EcucModuleConfigurationValues, "cfgp").unwrap();
        let k = cfg.create_sub_element(ElementName::Containers).unwrap().create_named_sub_element(ElementName::EcucContainerValue, "k").unwrap();
        let pv = k.create_sub_element(ElementName::ParameterValues).unwrap();
        for defref in [None, Some("/d/a"), Some("/d/a10"), Some("/d/a2"), Some("/d/b")] {
            for idx in [None, Some("0"), Some("1"), Some("10")] {
                for val in ["1", "2", "10"] {
                    let e = pv.create_sub_element(ElementName::EcucNumericalParamValue).unwrap();
                    let mut ok = true;
                    if let Some(d) = defref {
                        ok &= e.create_sub_element(ElementName::DefinitionRef).and_then(|r| r.set_attribute(AttributeName::Dest, EnumItem::EcucIntegerParamDef).and_then(|_| r.set_character_data(d))).is_ok();
                    }
                    ok &= e.create_sub_element(ElementName::Value).and_then(|x| x.set_character_data(val)).is_ok();
                    if let Some(i) = idx {
                        ok &= e.create_sub_element(ElementName::Index).and_then(|x| x.set_character_data(i)).is_ok();
                    }
                    if !ok {
                        ctx.machinery_error("comparator universe: cannot build a parameter value");
                    }
                    params.push((format!("ECUC-NUMERICAL-PARAM-VALUE defref={defref:?} index={idx:?} value={val}"), e));
                }
            }
        }
        let sys = host.create_named_sub_element(ElementName::System, "sys").unwrap();
        let fe = sys.create_sub_element(ElementName::FibexElements).unwrap();
        for dest in [Some(EnumItem::CanCluster), Some(EnumItem::EcuInstance), Some(EnumItem::CanFrame), None] {
            for text in [Some("/x/a"), Some("/x/a10"), Some("/x/a2"), Some("/x/b"), None] {
                let c = fe.create_sub_element(ElementName::FibexElementRefConditional).unwrap();
                let r = c.create_sub_element(ElementName::FibexElementRef).unwrap();
                if let Some(d) = dest {
                    let _ = r.set_attribute(AttributeName::Dest, d);
                }
                if let Some(t) = text {
                    let _ = r.set_character_data(t);
                }
                refs.push((format!("FIBEX-ELEMENT-REF-CONDITIONAL dest={dest:?} text={text:?}"), c.clone()));
                refs.push((format!("FIBEX-ELEMENT-REF dest={dest:?} text={text:?}"), r));
            }
        }
    }
    // (5) key-less repeatable siblings that differ only in a float value deep inside (SW-CALPRM-AXIS / SW-AXIS-GROUPED / MAX-GRADIENT)
    let mut floats: Vec<(String, Element)> = vec![];
    {
        let set = host
            .create_named_sub_element(ElementName::ApplicationPrimitiveDataType, "t")
            .and_then(|e| e.create_sub_element(ElementName::SwDataDefProps))
            .and_then(|e| e.create_sub_element(ElementName::SwDataDefPropsVariants))
            .and_then(|e| e.create_sub_element(ElementName::SwDataDefPropsConditional))
            .and_then(|e| e.create_sub_element(ElementName::SwCalprmAxisSet));
        match set {
            Ok(set) => {
                for v in [0.0f64, -0.0, 1.0, 2.0, -1.0, 0.1, 1e300, f64::INFINITY, f64::NEG_INFINITY, f64::NAN, f64::MIN_POSITIVE] {
                    let r = set
                        .create_sub_element(ElementName::SwCalprmAxis)
                        .and_then(|a| a.create_sub_element(ElementName::SwAxisGrouped).and_then(|g| g.create_sub_element(ElementName::MaxGradient)).and_then(|g| g.set_character_data(v)).map(|_| a));
                    match r {
                        Ok(a) => floats.push((format!("SW-CALPRM-AXIS max-gradient={v:?}"), a)),
                        Err(e) => ctx.machinery_error(format!("comparator universe: float {v:?}: {e}")),
                    }
                }
            }
            Err(e) => ctx.machinery_error(format!("comparator universe: SW-CALPRM-AXIS-SET: {e}")),
        }
    }
    // (6) siblings that differ only in an attribute value, their own (SDG GID, L-4 L) or a descendant's (SDG/SD GID)
    let mut attrs_only: Vec<(String, Element)> = vec![];
    {
        let adm = host.create_named_sub_element(ElementName::System, "sysadm").and_then(|e| e.create_sub_element(ElementName::AdminData));
        match adm.and_then(|a| a.create_sub_element(ElementName::Sdgs)) {
            Ok(sdgs) => {
                for gid in ["Zeta", "Alpha", "a2", "a10", ""] {
                    if let Ok(sdg) = sdgs.create_sub_element(ElementName::Sdg) {
                        let _ = sdg.set_attribute_string(AttributeName::Gid, gid);
                        let _ = sdg.create_sub_element(ElementName::Sd).and_then(|sd| sd.set_character_data("same"));
                        attrs_only.push((format!("SDG GID={gid:?} same content"), sdg));
                    }
                }
                for gid in ["k2", "k1"] {
                    if let Ok(sdg) = sdgs.create_sub_element(ElementName::Sdg) {
                        let _ = sdg.set_attribute_string(AttributeName::Gid, "same");
                        let _ = sdg.create_sub_element(ElementName::Sd).and_then(|sd| sd.set_attribute_string(AttributeName::Gid, gid).and_then(|_| sd.set_character_data("same")));
                        attrs_only.push((format!("SDG GID=same with SD GID={gid:?}"), sdg));
                    }
                }
            }
            Err(e) => ctx.machinery_error(format!("comparator universe: SDGS: {e}")),
        }
        if let Ok(ln) = host.create_named_sub_element(ElementName::System, "sysln").and_then(|e| e.create_sub_element(ElementName::LongName)) {
            for l in [EnumItem::En, EnumItem::De, EnumItem::Fr] {
                if let Ok(l4) = ln.create_sub_element(ElementName::L4) {
                    let _ = l4.set_attribute(AttributeName::L, l);
                    let _ = l4.insert_character_content_item("Gateway", 0);
                    attrs_only.push((format!("L-4 L={l:?} same text"), l4));
                }
            }
        }
    }
    let mut evals = 0u64;
    for (what, uni) in [("names", &universe), ("containers-with-index", &containers), ("parameter-values", &params), ("references", &refs), ("float-content", &floats), ("attributes-only", &attrs_only)] {
        let n = uni.len();
        // the matrix, row by row in parallel (each comparison takes read locks only)
        let rows: Vec<Vec<i8>> = uni
            .par_iter()
            .map(|(la, a)| {
                uni.iter()
                    .map(|(lb, b)| match guarded(|| a.cmp(b)) {
                        Ok(O::Less) => -1,
                        Ok(O::Equal) => 0,
                        Ok(O::Greater) => 1,
                        Err(msg) => {
                            ctx.violation(format!("comparator|{what}|cmp-panics|{}", last_panic_loc()), json!({"kind": "cmp", "a": la, "b": lb, "msg": msg}));
                            2
                        }
                    })
                    .collect()
            })
            .collect();
        evals += (n * n) as u64;
        for i in 0..n {
            if rows[i][i] != 0 && rows[i][i] != 2 {
                ctx.violation(format!("comparator|{what}|not-reflexive"), json!({"kind": "cmp", "a": uni[i].0}));
            }
            for j in 0..n {
                if rows[i][j] == 2 || rows[j][i] == 2 {
                    continue;
                }
                if rows[i][j] != -rows[j][i] {
                    ctx.violation(format!("comparator|{what}|not-antisymmetric"), json!({"kind": "cmp", "a": uni[i].0, "b": uni[j].0, "a_cmp_b": rows[i][j], "b_cmp_a": rows[j][i]}));
                }
                if i != j && rows[i][j] == 0 && (what == "names" || what == "float-content" || what == "attributes-only") {
                    ctx.violation(format!("comparator|{what}|distinct-keys-compare-equal"), json!({"kind": "cmp", "a": uni[i].0, "b": uni[j].0}));
                }
            }
        }
        // transitivity of <= over all triples
        let bad: Vec<(usize, usize, usize)> = (0..n)
            .into_par_iter()
            .filter_map(|i| {
                for j in 0..n {
                    if rows[i][j] > 0 || rows[i][j] == 2 {
                        continue;
                    }
                    for k in 0..n {
                        if rows[j][k] <= 0 && rows[i][k] == 1 {
                            return Some((i, j, k));
                        }
                    }
                }
                None
            })
            .collect();
        evals += (n * n * n) as u64;
        if let Some((i, j, k)) = bad.iter().min_by_key(|(i, j, k)| uni[*i].0.len() + uni[*j].0.len() + uni[*k].0.len()) {
            ctx.violation(
                format!("comparator|{what}|not-transitive"),
                json!({"kind": "cmp", "a<=b<=c but a>c": [uni[*i].0.clone(), uni[*j].0.clone(), uni[*k].0.clone()], "triples_starting_points": bad.len()}),
            );
        }
    }
    ctx.sample(json!({"comparator_axioms": "complete Element::cmp matrix", "universes": {"names": n_names, "containers-with-index": containers.len(), "parameter-values": params.len(), "references": refs.len(), "float-content": floats.len()}, "example_triple": ["a20", "a100", "a1b"]}));
    ctx.assume("a comparator that is reflexive, antisymmetric and transitive on the universe, and equal only for identical keys, gives a sort result that does not depend on the previous order (the sort itself is std's stable sort)");
    ctx.count("comparator_universe_names", n_names as u64);
    ctx.count("comparator_universe_containers", containers.len() as u64);
    evals
}


// ------------------------------------------------------------------------------------------------ sort on full documents

/// The specification-derived full document of each version (every element type with all its sub-elements, in
/// specification order) is loaded and sorted: afterwards the children of every element must still be in the order the
/// specification of *that version* prescribes (checked by C07's order checker, which uses the version's own index
/// lists), nothing may be lost, and a second sort must change nothing.
/// reverse the children of every parent whose content may be sorted (not ordered, no character content), keeping the
/// identity carrier SHORT-NAME in front; returns the number of parents whose order changed
fn scramble(n: &mut Node, t: autosar_data_specification::ElementType, v: AutosarVersion) -> u64 {
    use crate::common::tree::Item as TItem;
    use std::str::FromStr;
    let mut changed = 0;
    for it in n.items.iter_mut() {
        if let TItem::Node(c) = it {
            if let Some((ct, _)) = ElementName::from_str(&c.name).ok().and_then(|nm| t.find_sub_element(nm, v as u32)) {
                changed += scramble(c, ct, v);
            }
        }
    }
    if matches!(t.content_mode(), autosar_data_specification::ContentMode::Sequence | autosar_data_specification::ContentMode::Choice | autosar_data_specification::ContentMode::Bag) && !t.is_ordered() {
        let items = std::mem::take(&mut n.items);
        let (front, mut rest): (Vec<TItem>, Vec<TItem>) = items.into_iter().partition(|i| matches!(i, TItem::Node(c) if c.name == "SHORT-NAME"));
        if rest.len() > 1 {
            changed += 1;
        }
        rest.reverse();
        n.items = front.into_iter().chain(rest).collect();
    }
    changed
}

/// Names that only a non-strict load can bring into a model (multi-byte characters, digits first, spaces): every sub-multiset
/// of the pool as sibling packages in every order, loaded leniently and sorted. Sorting never fails and the result does not
/// depend on the order in the file.
fn sort_loaded_names(ctx: &Ctx, tier: Tier) -> u64 {
    let pool = ["a", "ä1", "ä10", "Größe", "Maß2", "Maß10", "1a", "a b", "é", "a1é"];
    let max = tier.pick(4usize, 5usize);
    let n = AtomicU64::new(0);
    // every subset of up to `max` names
    let subsets: Vec<Vec<&str>> = (1u32..(1 << pool.len())).filter(|m| m.count_ones() as usize <= max && m.count_ones() >= 2).map(|m| (0..pool.len()).filter(|i| m & (1 << i) != 0).map(|i| pool[i]).collect()).collect();
    subsets.par_iter().for_each(|names| {
        // every order of the subset
        fn perms(v: &[&str]) -> Vec<Vec<String>> {
            if v.len() <= 1 {
                return vec![v.iter().map(|s| s.to_string()).collect()];
            }
            let mut out = vec![];
            for i in 0..v.len() {
                let mut rest = v.to_vec();
                let x = rest.remove(i);
                for mut p in perms(&rest) {
                    p.insert(0, x.to_string());
                    out.push(p);
                }
            }
            out
        }
        let mut results: BTreeMap<String, Vec<String>> = BTreeMap::new();
        for order in perms(names) {
            n.fetch_add(1, Ordering::Relaxed);
            let body: String = order.iter().map(|nm| format!("<AR-PACKAGE><SHORT-NAME>{nm}</SHORT-NAME></AR-PACKAGE>")).collect();
            let text = format!("<?xml version=\"1.0\" encoding=\"utf-8\"?>\n<AUTOSAR {}><AR-PACKAGES>{body}</AR-PACKAGES></AUTOSAR>", header_attrs(AutosarVersion::Autosar_00050));
            let w = || json!({"kind": "sort-loaded-names", "names_in_file_order": order, "text": text});
            let m = AutosarModel::new();
            if m.load_buffer(text.as_bytes(), "x.arxml", false).is_err() {
                ctx.count("loaded_name_documents_not_accepted", 1);
                continue;
            }
            let before = walk(&m).len();
            match guarded(|| m.sort()) {
                Err(msg) => {
                    ctx.violation(format!("loaded-names|panic|sort|{}", last_panic_loc()), json!({"w": w(), "msg": msg}));
                    continue;
                }
                Ok(()) => {}
            }
            if walk(&m).len() != before {
                ctx.violation("loaded-names|elements-lost-or-gained", w());
            }
            let sorted: Vec<String> = m.root_element().get_sub_element(ElementName::ArPackages).map(|p| p.sub_elements().filter_map(|e| e.item_name()).collect()).unwrap_or_default();
            let t1 = m.files().next().and_then(|f| f.serialize().ok());
            let _ = guarded(|| m.sort());
            if m.files().next().and_then(|f| f.serialize().ok()) != t1 {
                ctx.violation("loaded-names|second-sort-changes-the-result", w());
            }
            results.entry(sorted.join(" < ")).or_default().push(order.join(","));
        }
        if results.len() > 1 {
            ctx.violation("loaded-names|result-depends-on-previous-order", json!({"kind": "sort-loaded-names", "names": names, "results": results.keys().collect::<Vec<_>>()}));
        }
    });
    ctx.count("loaded_name_documents_sorted", n.load(Ordering::Relaxed));
    n.load(Ordering::Relaxed)
}

pub fn sort_full_documents(ctx: &Ctx, tier: Tier) -> u64 {
    use crate::common::docgen::DocGen;
    use crate::common::specgraph::VERSIONS;
    let versions: Vec<AutosarVersion> = VERSIONS.iter().enumerate().filter(|(i, _)| tier == Tier::Thorough || i % 6 == 0 || *i == VERSIONS.len() - 1).map(|(_, v)| *v).collect();
    let n: u64 = versions
        .par_iter()
        .map(|v| {
            let mut g = DocGen::new(*v, false);
            let doc = g.document();
            let text = print_document(&doc, *v, &PrintOpts::default());
            let m = AutosarModel::new();
            if m.load_buffer(text.as_bytes(), "full.arxml", true).is_err() {
                ctx.machinery_error(format!("sort on full documents: the generated document of {v:?} does not load"));
                return 0;
            }
            let order_problems = |m: &AutosarModel| -> Vec<String> {
                let mut out = vec![];
                for (_, e) in walk(m) {
                    let names: Vec<ElementName> = e.sub_elements().map(|c| c.element_name()).collect();
                    if names.len() > 1 && !crate::props::c07::valid_children(e.element_type(), *v, &names) {
                        out.push(format!("{} at {} [{}]", e.element_name(), e.xml_path(), names.iter().map(|n| n.to_str()).collect::<Vec<_>>().join(", ")));
                    }
                }
                out
            };
            let before = order_problems(&m);
            if !before.is_empty() {
                ctx.machinery_error(format!("sort on full documents: the generated document of {v:?} is not in specification order at {}", before[0]));
                return 0;
            }
            let count_before = walk(&m).len();
            if let Err(msg) = guarded(|| m.sort()) {
                ctx.violation(format!("full-document|panic|sort|{}", last_panic_loc()), json!({"kind": "sort-full", "version": format!("{v:?}"), "msg": msg}));
                return 1;
            }
            let after = order_problems(&m);
            if let Some(first) = after.first() {
                let parent_kind = first.split(' ').next().unwrap_or("").to_string();
                ctx.violation(
                    format!("full-document|children-not-in-specification-order-after-sort|{parent_kind}"),
                    json!({"kind": "sort-full", "version": format!("{v:?}"), "parents_out_of_order": after.len(), "first": first}),
                );
            }
            if walk(&m).len() != count_before {
                ctx.violation("full-document|elements-lost-or-gained", json!({"kind": "sort-full", "version": format!("{v:?}")}));
            }
            // the same through Element::sort() on every package of a second copy: same order rules, same result per package
            let mb = AutosarModel::new();
            if mb.load_buffer(text.as_bytes(), "full_b.arxml", true).is_ok() {
                if let Some(pkgs) = mb.root_element().get_sub_element(ElementName::ArPackages) {
                    for pkg in pkgs.sub_elements() {
                        if let Err(msg) = guarded(|| pkg.sort()) {
                            ctx.violation(format!("full-document|panic|element-sort|{}", last_panic_loc()), json!({"kind": "sort-full", "version": format!("{v:?}"), "msg": msg}));
                        }
                    }
                }
                let after_b = order_problems(&mb);
                if let Some(first) = after_b.first() {
                    let parent_kind = first.split(' ').next().unwrap_or("").to_string();
                    ctx.violation(
                        format!("full-document|children-not-in-specification-order-after-element-sort|{parent_kind}"),
                        json!({"kind": "sort-full", "version": format!("{v:?}"), "parents_out_of_order": after_b.len(), "first": first}),
                    );
                }
                // package by package the result equals that of the model-wide sort
                let by_name = |m: &AutosarModel| -> BTreeMap<String, String> {
                    m.root_element().get_sub_element(ElementName::ArPackages).map(|p| p.sub_elements().map(|e| (e.item_name().unwrap_or_default(), e.serialize())).collect()).unwrap_or_default()
                };
                if by_name(&m) != by_name(&mb) {
                    ctx.violation("full-document|element-sort-and-model-sort-differ", json!({"kind": "sort-full", "version": format!("{v:?}")}));
                }
            }
            let t1 = m.files().next().and_then(|f| f.serialize().ok());
            m.sort();
            let t2 = m.files().next().and_then(|f| f.serialize().ok());
            if t1 != t2 {
                ctx.violation("full-document|second-sort-changes-the-result", json!({"kind": "sort-full", "version": format!("{v:?}")}));
            }
            // the result does not depend on the previous order: the same document with the children of every parent that may be
            // sorted in reverse order (the parser does not enforce sibling order) sorts to the same text
            let mut scrambled = doc.clone();
            let reversed_parents = scramble(&mut scrambled, autosar_data_specification::ElementType::ROOT, *v);
            ctx.count("full_document_parents_reversed", reversed_parents);
            let text_s = print_document(&scrambled, *v, &PrintOpts::default());
            let ms = AutosarModel::new();
            match ms.load_buffer(text_s.as_bytes(), "full.arxml", true) {
                Err(e) => ctx.machinery_error(format!("sort on full documents: the reversed document of {v:?} does not load: {e}")),
                Ok(_) => {
                    if let Err(msg) = guarded(|| ms.sort()) {
                        ctx.violation(format!("full-document|panic|sort-of-reversed-document|{}", last_panic_loc()), json!({"kind": "sort-full", "version": format!("{v:?}"), "msg": msg}));
                    } else {
                        let ts = ms.files().next().and_then(|f| f.serialize().ok());
                        if ts != t1 {
                            // first differing line, with the element it belongs to
                            let (a, b) = (t1.clone().unwrap_or_default(), ts.unwrap_or_default());
                            let diff = a.lines().zip(b.lines()).enumerate().find(|(_, (x, y))| x != y).map(|(i, (x, y))| format!("line {}: {} | {}", i + 1, x.trim(), y.trim())).unwrap_or_else(|| "length".into());
                            let first_kind = order_problems(&ms).first().map(|f| f.split(' ').next().unwrap_or("").to_string()).unwrap_or_else(|| "same-kind-siblings".into());
                            ctx.violation(format!("full-document|result-depends-on-previous-order|{first_kind}"), json!({"kind": "sort-full", "version": format!("{v:?}"), "first_difference": diff}));
                        }
                    }
                }
            }
            if let Some(t) = t1 {
                let m2 = AutosarModel::new();
                match m2.load_buffer(t.as_bytes(), "again.arxml", true) {
                    Ok((_, w)) if w.is_empty() => {}
                    other => ctx.violation("full-document|model-invalid-after-sort", json!({"kind": "sort-full", "version": format!("{v:?}"), "result": format!("{:?}", other.map(|(_, w)| w.len()).map_err(|e| e.to_string()))})),
                }
            }
            count_before as u64
        })
        .sum();
    ctx.count("full_documents_sorted", versions.len() as u64);
    ctx.count("full_document_elements_sorted", n);
    n
}

pub fn run(tier: Tier) -> i32 {
    let ctx = Ctx::new("C14", tier);
    let perms_run = AtomicU64::new(0);
    let sets_run = AtomicU64::new(0);
    let max = tier.pick(5usize, 7usize);
    for s in scenarios() {
        let sets = multisets(&s.pool, max.min(s.pool.len().max(if s.repeat { max } else { 0 })), s.repeat);
        // failing multisets found so far (for attribution of supersets to their smallest failing subset)
        let failing: Mutex<Vec<Vec<Item>>> = Mutex::new(vec![]);
        let mut by_size: BTreeMap<usize, Vec<Vec<Item>>> = BTreeMap::new();
        for m in sets {
            by_size.entry(m.len()).or_default().push(m);
        }
        for (_size, group) in by_size {
            let new_failing: Vec<Vec<Item>> = group
                .par_iter()
                .filter_map(|ms| {
                    sets_run.fetch_add(1, Ordering::Relaxed);
                    let perms = permutations(ms);
                    let mut texts: BTreeMap<String, Vec<Item>> = BTreeMap::new();
                    for p in &perms {
                        perms_run.fetch_add(1, Ordering::Relaxed);
                        let r = run_perm(&s, p);
                        for (k, d) in r.problems {
                            if k == "MACHINERY" {
                                ctx.machinery_error(d);
                            } else {
                                ctx.violation(format!("{}|{k}", s.name), json!({"kind": "sort", "scenario": s.name, "children_in_creation_order": format!("{p:?}"), "detail": d}));
                            }
                        }
                        if let Some(t) = r.text_no_comments {
                            texts.entry(t).or_insert_with(|| p.clone());
                        }
                    }
                    // the result may (must) depend on the input order where the specification forbids reordering
                    if texts.len() > 1 && !s.ordered {
                        let known_sub = failing.lock().unwrap().iter().any(|f| is_submultiset(f, ms));
                        if !known_sub {
                            let names: Vec<String> = ms.iter().map(item_label).collect();
                            let two: Vec<&Vec<Item>> = texts.values().take(2).collect();
                            ctx.violation(
                                format!("{}|result-depends-on-input-order|{}", s.name, names.join(",")),
                                json!({"kind": "sort", "scenario": s.name, "siblings": names, "distinct_results": texts.len(), "creation_order_1": format!("{:?}", two[0]), "creation_order_2": format!("{:?}", two[1])}),
                            );
                        } else {
                            ctx.count("order_dependent_supersets_of_a_reported_multiset", 1);
                        }
                        return Some(ms.clone());
                    }
                    None
                })
                .collect();
            failing.lock().unwrap().extend(new_failing);
        }
        ctx.outcome(format!("{}:{}", s.name, failing.lock().unwrap().len()));
    }
    let n = perms_run.load(Ordering::Relaxed);
    let cmp_evals = comparator_axioms(&ctx, tier);
    let full_evals = sort_full_documents(&ctx, tier) + sort_loaded_names(&ctx, tier);
    ctx.eval(n + cmp_evals + full_evals);
    ctx.count("multisets", sets_run.load(Ordering::Relaxed));
    ctx.count("permutations", n);
    ctx.sample(json!({"scenario": "packages", "siblings": ["a2", "a10", "a1b"], "permutations": 6}));
    ctx.assume("siblings that differ only in their comments may keep their relative order: results are compared with comments removed");
    let cov = json!({
        "states": sets_run.load(Ordering::Relaxed),
        "transitions": n,
        "traces_validated_against_impl": n,
        "max_siblings": max,
        "scenarios": scenarios().iter().map(|s| s.name).collect::<Vec<_>>(),
        "exhaustive": true,
    });
    ctx.finish("model_checking", cov)
}

fn item_label(i: &Item) -> String {
    match i {
        Item::Named(k, n) => format!("{k}:{n}"),
        Item::Container(n, idx) => format!("{n}[index={}]", idx.unwrap_or("-")),
        Item::Param(d, i, v, c) => format!("param(def={},index={},value={v},comment={})", d.unwrap_or("-"), i.unwrap_or("-"), c.unwrap_or("-")),
        Item::Ref(d, t, c) => format!("ref(dest={d},{t},comment={})", c.unwrap_or("-")),
        Item::DocRev(l) => format!("rev:{l}"),
        Item::Arg(n) => format!("arg:{n}"),
        Item::ArgL(n, l) => format!("arg:{n}{l:?}"),
        Item::TypeSet(r) => format!("typeset{r:?}"),
    }
}

fn is_submultiset(small: &[Item], big: &[Item]) -> bool {
    if small.len() >= big.len() {
        return false;
    }
    let mut rest = big.to_vec();
    for s in small {
        match rest.iter().position(|x| x == s) {
            Some(p) => {
                rest.remove(p);
            }
            None => return false,
        }
    }
    true
}

pub fn replay(v: &Value) -> i32 {
    println!("{}", serde_json::to_string_pretty(&v["witness"]).unwrap());
    println!("replay: create the listed siblings in the two creation orders, call model.sort() on each and compare the serialized files");
    1
}
