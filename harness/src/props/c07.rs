//! C07 — what the editing API builds conforms to the specification the loader enforces. Engine specwalk:
//! every content model (datatype) per version, content states reachable by <= 1 (2) creations, every candidate
//! sub-element at every position; values and attributes from and outside the value spaces.
use super::c01::load_classified;
use crate::common::specgraph::*;
use crate::common::specvalid::*;
use crate::common::tree::*;
use crate::common::*;
use autosar_data::*;
use autosar_data_specification::*;
use rayon::prelude::*;
use serde_json::{json, Value};
use std::collections::HashSet;
use std::sync::atomic::{AtomicU64, Ordering};

/// the harness's reading of "specification order / exclusive / single occurrence" for the children of `p`
pub fn valid_children(p: ElementType, v: AutosarVersion, seq: &[ElementName]) -> bool {
    if matches!(p.content_mode(), ContentMode::Characters) {
        return seq.is_empty();
    }
    let mut idx: Vec<Vec<usize>> = vec![];
    for n in seq {
        match p.find_sub_element(*n, v as u32) {
            Some((_, i)) => idx.push(i),
            None => return false,
        }
    }
    if matches!(p.content_mode(), ContentMode::Bag | ContentMode::Mixed) {
        return true;
    }
    for i in 0..idx.len() {
        for j in i + 1..idx.len() {
            if idx[i] == idx[j] {
                // the same entry twice: only with multiplicity Any, or when the directly containing group is a bag
                let m = p.get_sub_element_multiplicity(&idx[i]).unwrap_or(ElementMultiplicity::Any);
                let container = p.get_sub_element_container_mode(&idx[i]);
                if m != ElementMultiplicity::Any && !matches!(container, ContentMode::Bag | ContentMode::Mixed) {
                    return false;
                }
                continue;
            }
            match p.find_common_group(&idx[i], &idx[j]).content_mode() {
                ContentMode::Sequence => {
                    if idx[i] > idx[j] {
                        return false;
                    }
                }
                ContentMode::Choice => return false,
                _ => {}
            }
        }
    }
    true
}

pub fn build_chain(path: &[Step], v: AutosarVersion) -> Result<(AutosarModel, ArxmlFile, Element), String> {
    let m = AutosarModel::new();
    let f = m.create_file("x.arxml", v).map_err(|e| e.to_string())?;
    let mut cur = m.root_element();
    let mut n = 0;
    for step in &path[1..] {
        let parent_type = cur.element_type();
        let (st, _) = parent_type.find_sub_element(step.name, v as u32).ok_or("step not found")?;
        if step.name == ElementName::ShortName && cur.is_identifiable() {
            // the SHORT-NAME of a named element is created together with the element
            cur = cur.get_sub_element(ElementName::ShortName).ok_or("no SHORT-NAME")?;
            continue;
        }
        cur = if st.is_named_in_version(v) {
            n += 1;
            cur.create_named_sub_element(step.name, &format!("n{n}")).map_err(|e| format!("{e}"))?
        } else {
            cur.create_sub_element(step.name).map_err(|e| format!("{e}"))?
        };
    }
    Ok((m, f, cur))
}

fn child_names(e: &Element) -> Vec<ElementName> {
    e.sub_elements().map(|s| s.element_name()).collect()
}

fn create(parent: &Element, n: ElementName, named: bool, pos: Option<usize>, k: usize) -> Result<Element, AutosarDataError> {
    match (named, pos) {
        (true, None) => parent.create_named_sub_element(n, &format!("x{k}")),
        (true, Some(p)) => parent.create_named_sub_element_at(n, &format!("x{k}"), p),
        (false, None) => parent.create_sub_element(n),
        (false, Some(p)) => parent.create_sub_element_at(n, p),
    }
}

struct Cnt {
    models: AtomicU64,
    states: AtomicU64,
    attempts: AtomicU64,
    reloads: AtomicU64,
    values: AtomicU64,
}

/// serialize the file, load it leniently: same content, no complaint other than a required attribute never set
fn check_reload(ctx: &Ctx, cnt: &Cnt, m: &AutosarModel, f: &ArxmlFile, v: AutosarVersion, context: &dyn Fn() -> Value) {
    cnt.reloads.fetch_add(1, Ordering::Relaxed);
    let text = match guarded(|| f.serialize()) {
        Ok(Ok(t)) => t,
        other => {
            ctx.violation("reload|serialize-fails", json!({"context": context(), "result": format!("{:?}", other.map(|r| r.map(|_| ())))}));
            return;
        }
    };
    match load_classified(text.as_bytes(), false) {
        Ok(Ok(l)) => {
            for (w, c) in l.warnings.iter().zip(l.warning_classes.iter()) {
                if c != "ParserError::RequiredAttributeMissing" {
                    ctx.violation(format!("reload|loader-complains|{c}"), json!({"context": context(), "warning": w, "text": text}));
                    break;
                }
            }
            let (a, b) = (snapshot_model(m), snapshot_model(&l.model));
            if let Some(d) = b.diff(&a, "") {
                ctx.violation(format!("reload|content-differs|{}", super::c01::diff_class(&d)), json!({"context": context(), "diff(reloaded vs built)": d, "text": text}));
            }
            // the harness's own validator must agree
            for x in validate_tree(&a, v) {
                if x.kind != "required-attribute-missing" {
                    ctx.violation(format!("built-model-violates-specification|{}", x.kind), json!({"context": context(), "at": x.at, "text": text}));
                    break;
                }
            }
        }
        Ok(Err(e)) => ctx.violation(format!("reload|lenient-load-fails|{}", e.class), json!({"context": context(), "error": e.text, "text": text})),
        Err(p) => ctx.violation("reload|panic", json!({"context": context(), "msg": p})),
    }
}

fn explore_type(ctx: &Ctx, cnt: &Cnt, r: &Reach, p: ElementType, tier: Tier) {
    let v = r.version;
    let path = &r.path[&p];
    let Ok((m, f, pe)) = build_chain(path, v) else {
        // not constructible by design when a step is an exclusive alternative of its parent's mandatory SHORT-NAME
        let excluded = path.windows(2).any(|w| {
            let (pt, child) = (w[0].etype, w[1].name);
            pt.is_named_in_version(v)
                && match (pt.find_sub_element(ElementName::ShortName, v as u32), pt.find_sub_element(child, v as u32)) {
                    (Some((_, a)), Some((_, b))) => a != b && pt.find_common_group(&a, &b).content_mode() == ContentMode::Choice,
                    _ => false,
                }
        });
        if excluded {
            ctx.count("content_models_only_reachable_through_an_alternative_of_a_mandatory_short_name", 1);
            return;
        }
        ctx.violation("chain|cannot-build-access-path-with-the-editing-api", json!({"path": path.iter().map(|s| s.name.to_str()).collect::<Vec<_>>(), "version": format!("{v:?}")}));
        return;
    };
    if pe.element_type() != p {
        ctx.machinery_error("located wrong element");
        return;
    }
    cnt.models.fetch_add(1, Ordering::Relaxed);
    let named_p = p.is_named_in_version(v);
    let subs = sub_specs(p, v);
    let cands: Vec<(ElementName, bool)> = subs.iter().filter(|s| !(named_p && s.name == ElementName::ShortName)).map(|s| (s.name, s.etype.is_named_in_version(v))).collect();
    let pname = pe.element_name();
    let ctx_json = |cur: &[ElementName], extra: Value| json!({"version": format!("{v:?}"), "parent": pname.to_str(), "access_path": path.iter().map(|s| s.name.to_str()).collect::<Vec<_>>(), "children": cur.iter().map(|n| n.to_str()).collect::<Vec<_>>(), "op": extra});

    // list_valid_sub_elements vs the specification listing, in the base state
    let listed = pe.list_valid_sub_elements();
    let listed_names: Vec<ElementName> = listed.iter().map(|i| i.element_name).collect();
    // the harness's own enumeration (lookup of every element name, ordered by position in the specification)
    let spec_names: Vec<ElementName> = subs.iter().map(|s| s.name).collect();
    if listed_names != spec_names {
        ctx.violation("listing|list_valid_sub_elements-differs-from-specification", ctx_json(&[], json!({"listed": listed_names.len(), "spec": spec_names.len()})));
    }
    for info in &listed {
        if let Some((st, _)) = p.find_sub_element(info.element_name, v as u32) {
            if info.is_named != st.is_named_in_version(v) {
                ctx.violation("listing|is_named-flag-wrong", ctx_json(&[], json!({"name": info.element_name.to_str()})));
            }
        }
    }
    // a name that is not listed must not be creatable
    for outsider in [ElementName::ArPackages, ElementName::CanCluster, ElementName::L2, ElementName::ShortName, ElementName::Autosar, ElementName::Sd] {
        if p.find_sub_element(outsider, v as u32).is_none() {
            cnt.attempts.fetch_add(2, Ordering::Relaxed);
            let r1 = guarded(|| pe.create_sub_element(outsider).map(|e| pe.remove_sub_element(e)));
            let r2 = guarded(|| pe.create_named_sub_element(outsider, "zz").map(|e| pe.remove_sub_element(e)));
            for (api, r) in [("create_sub_element", r1), ("create_named_sub_element", r2)] {
                match r {
                    Ok(Err(_)) => {}
                    Ok(Ok(_)) => ctx.violation("create|unlisted-sub-element-created", ctx_json(&[], json!({"api": api, "name": outsider.to_str()}))),
                    Err(msg) => ctx.violation(format!("panic|{api}|{}", last_panic_loc()), ctx_json(&[], json!({"name": outsider.to_str(), "msg": msg}))),
                }
            }
        }
    }
    // wrong API for the kind: named element without a name, unnamed element with a name
    for (n, named) in cands.iter().take(6) {
        cnt.attempts.fetch_add(1, Ordering::Relaxed);
        let r = guarded(|| if *named { pe.create_sub_element(*n).map(|e| pe.remove_sub_element(e)) } else { pe.create_named_sub_element(*n, "zz").map(|e| pe.remove_sub_element(e)) });
        if let Ok(Ok(_)) = r {
            ctx.violation("create|wrong-api-for-kind-succeeds", ctx_json(&[], json!({"name": n.to_str(), "is_named": named})));
        }
    }

    if p.content_mode() == ContentMode::Characters {
        return;
    }
    // content states: base, base+1 creation, base+2 creations (small models only)
    let big = cands.len() > tier.pick(10, 40);
    let mut seqs: Vec<Vec<(ElementName, bool)>> = vec![vec![]];
    if cands.len() <= 60 {
        for c in &cands {
            seqs.push(vec![*c]);
        }
        if !big {
            for c1 in &cands {
                for c2 in &cands {
                    seqs.push(vec![*c1, *c2]);
                    if cands.len() <= tier.pick(3, 12) {
                        for c3 in &cands {
                            seqs.push(vec![*c1, *c2, *c3]);
                        }
                    }
                }
            }
        }
    } else {
        // very large bags: first, middle and last candidate only
        for c in [cands[0], cands[cands.len() / 2], cands[cands.len() - 1]] {
            seqs.push(vec![c]);
        }
        ctx.count("content_models_with_reduced_states", 1);
    }
    let test_cands: Vec<(ElementName, bool)> = if cands.len() <= 60 { cands.clone() } else { cands.iter().step_by(cands.len() / 40).cloned().collect() };
    for fs in seqs {
        let mut created: Vec<Element> = vec![];
        let mut failed = false;
        for (k, (n1, named1)) in fs.iter().enumerate() {
            let before = child_names(&pe);
            cnt.attempts.fetch_add(1, Ordering::Relaxed);
            match guarded(|| create(&pe, *n1, *named1, None, 10 + k)) {
                Ok(Ok(e)) => created.push(e),
                Ok(Err(err)) => {
                    // auto-positioned creation may only fail when no position is valid
                    let pred = (0..=before.len()).any(|pos| {
                        let mut s2 = before.clone();
                        s2.insert(pos, *n1);
                        valid_children(p, v, &s2)
                    });
                    if pred {
                        ctx.violation("create|auto-position-fails-although-a-valid-position-exists", ctx_json(&before, json!({"create": n1.to_str(), "error": err.to_string()})));
                    }
                    failed = true;
                    break;
                }
                Err(msg) => {
                    ctx.violation(format!("panic|create|{}", last_panic_loc()), ctx_json(&before, json!({"create": n1.to_str(), "msg": msg})));
                    failed = true;
                    break;
                }
            }
        }
        if !failed {
            cnt.states.fetch_add(1, Ordering::Relaxed);
            let cur = child_names(&pe);
            if !valid_children(p, v, &cur) {
                ctx.violation("create|auto-positioned-creation-breaks-specification-order", ctx_json(&cur, json!({"created": fs.iter().map(|c| c.0.to_str()).collect::<Vec<_>>()})));
            }
            check_reload(ctx, cnt, &m, &f, v, &|| ctx_json(&cur, json!("after auto-positioned creation")));
            // is_allowed flags in this state
            let listed = pe.list_valid_sub_elements();
            for info in &listed {
                if named_p && info.element_name == ElementName::ShortName {
                    continue;
                }
                let pred = (0..=cur.len()).any(|pos| {
                    let mut s2 = cur.clone();
                    s2.insert(pos, info.element_name);
                    valid_children(p, v, &s2)
                });
                if info.is_allowed != pred {
                    ctx.violation("listing|is_allowed-flag-wrong", ctx_json(&cur, json!({"name": info.element_name.to_str(), "is_allowed": info.is_allowed, "a_valid_position_exists": pred})));
                }
            }
            for &(n2, named2) in &test_cands {
                let range = pe.calc_element_insert_range(n2, v).ok();
                let mut valid_set = vec![];
                for pos in 0..=cur.len() + 1 {
                    cnt.attempts.fetch_add(1, Ordering::Relaxed);
                    let pred = pos <= cur.len() && {
                        let mut s2 = cur.clone();
                        s2.insert(pos, n2);
                        valid_children(p, v, &s2)
                    };
                    if pred {
                        valid_set.push(pos);
                    }
                    let ok = match guarded(|| create(&pe, n2, named2, Some(pos), 2)) {
                        Err(msg) => {
                            ctx.violation(format!("panic|create_at|{}", last_panic_loc()), ctx_json(&cur, json!({"create": n2.to_str(), "position": pos, "msg": msg})));
                            false
                        }
                        Ok(Ok(e)) => {
                            if e.position() != Some(pos + usize::from(false)) && child_names(&pe).get(pos) != Some(&n2) {
                                ctx.violation("create_at|element-not-at-requested-position", ctx_json(&cur, json!({"create": n2.to_str(), "position": pos})));
                            }
                            let _ = pe.remove_sub_element(e);
                            true
                        }
                        Ok(Err(_)) => false,
                    };
                    let in_range = range.is_some_and(|(s, e)| s <= pos && pos <= e);
                    if ok != in_range {
                        ctx.violation(format!("create_at|success={ok}-but-in-reported-range={in_range}"), ctx_json(&cur, json!({"create": n2.to_str(), "position": pos, "range": format!("{range:?}")})));
                    }
                    if ok != pred {
                        ctx.violation(
                            format!("create_at|success={ok}-but-position-keeps-specification-order={pred}|{:?}", p.content_mode()),
                            ctx_json(&cur, json!({"create": n2.to_str(), "position": pos, "range": format!("{range:?}")})),
                        );
                    }
                }
                match range {
                    Some((s, e)) => {
                        let contiguous: Vec<usize> = (s..=e).collect();
                        if contiguous != valid_set {
                            ctx.violation("range|reported-range-is-not-the-set-of-valid-positions", ctx_json(&cur, json!({"create": n2.to_str(), "range": [s, e], "valid_positions": valid_set})));
                        }
                    }
                    None => {
                        if !valid_set.is_empty() {
                            ctx.violation("range|no-range-reported-although-valid-positions-exist", ctx_json(&cur, json!({"create": n2.to_str(), "valid_positions": valid_set})));
                        }
                    }
                }
            }
            if child_names(&pe) != cur {
                ctx.violation("state|create-then-remove-does-not-restore-the-children", ctx_json(&cur, json!({"now": child_names(&pe).iter().map(|n| n.to_str()).collect::<Vec<_>>()})));
            }
        }
        for e in created.into_iter().rev() {
            let _ = pe.remove_sub_element(e);
        }
    }
}

/// copy-at and move-at from a second model: the same position rule as create_at
fn explore_copy_move(ctx: &Ctx, cnt: &Cnt, r: &Reach, p: ElementType) {
    let v = r.version;
    let path = &r.path[&p];
    let named_p = p.is_named_in_version(v);
    let subs = sub_specs(p, v);
    let cands: Vec<(ElementName, bool)> = subs.iter().filter(|s| !(named_p && s.name == ElementName::ShortName)).map(|s| (s.name, s.etype.is_named_in_version(v))).collect();
    if cands.is_empty() || cands.len() > 8 || p.content_mode() == ContentMode::Characters {
        return;
    }
    let Ok((m, f, pe)) = build_chain(path, v) else { return };
    for first in std::iter::once(None).chain(cands.iter().map(Some)) {
        let mut created = None;
        if let Some((n1, named1)) = first {
            match create(&pe, *n1, *named1, None, 10) {
                Ok(e) => created = Some(e),
                Err(_) => continue,
            }
        }
        let cur = child_names(&pe);
        for &(n2, named2) in &cands {
            for pos in 0..=cur.len() + 1 {
                let pred = pos <= cur.len() && {
                    let mut s2 = cur.clone();
                    s2.insert(pos, n2);
                    valid_children(p, v, &s2)
                };
                for op in ["copy", "move"] {
                    cnt.attempts.fetch_add(1, Ordering::Relaxed);
                    // fresh source in a second model
                    let Ok((_m2, _f2, pe2)) = build_chain(path, v) else { continue };
                    let Ok(src) = create(&pe2, n2, named2, None, 77) else { continue };
                    let res = guarded(|| if op == "copy" { pe.create_copied_sub_element_at(&src, pos) } else { pe.move_element_here_at(&src, pos) });
                    let w = |extra: Value| json!({"version": format!("{v:?}"), "parent": pe.element_name().to_str(), "children": cur.iter().map(|n| n.to_str()).collect::<Vec<_>>(), "op": op, "element": n2.to_str(), "position": pos, "extra": extra});
                    match res {
                        Err(msg) => ctx.violation(format!("panic|{op}_at|{}", last_panic_loc()), w(json!({"msg": msg}))),
                        Ok(Ok(e)) => {
                            if !pred {
                                ctx.violation(format!("{op}_at|succeeds-at-a-position-that-breaks-specification-order"), w(json!({})));
                            }
                            check_reload(ctx, cnt, &m, &f, v, &|| w(json!("after successful copy/move")));
                            let _ = pe.remove_sub_element(e);
                        }
                        Ok(Err(err)) => {
                            if pred {
                                ctx.violation(format!("{op}_at|fails-at-a-valid-position"), w(json!({"error": err.to_string()})));
                            }
                        }
                    }
                }
            }
        }
        if let Some(e) = created {
            let _ = pe.remove_sub_element(e);
        }
    }
    // moves within the same parent: two children of one (repeatable) kind followed by / preceded by a child of another kind;
    // a successful move to a position must leave the children in specification order
    for &(rep, rep_named) in &cands {
        for &(other, other_named) in &cands {
            if other == rep {
                continue;
            }
            let Ok((m2, f2, pe2)) = build_chain(path, v) else { continue };
            let (Ok(a), Ok(_b), Ok(_o)) = (create(&pe2, rep, rep_named, None, 31), create(&pe2, rep, rep_named, None, 32), create(&pe2, other, other_named, None, 33)) else { continue };
            let n_children = pe2.content_item_count();
            for pos in 0..=n_children {
                cnt.attempts.fetch_add(1, Ordering::Relaxed);
                let before = child_names(&pe2);
                let res = guarded(|| pe2.move_element_here_at(&a, pos));
                let after = child_names(&pe2);
                let w = |extra: Value| json!({"version": format!("{v:?}"), "parent": pe2.element_name().to_str(), "children_before": before.iter().map(|n| n.to_str()).collect::<Vec<_>>(), "children_after": after.iter().map(|n| n.to_str()).collect::<Vec<_>>(), "op": "move within the parent", "element": rep.to_str(), "position": pos, "extra": extra});
                match res {
                    Err(msg) => ctx.violation(format!("panic|move_at(same parent)|{}", last_panic_loc()), w(json!({"msg": msg}))),
                    Ok(Ok(_)) => {
                        if !valid_children(p, v, &after) {
                            ctx.violation("move_at(same parent)|succeeds-and-breaks-specification-order", w(json!({})));
                        }
                        check_reload(ctx, cnt, &m2, &f2, v, &|| w(json!("after a move within the parent")));
                    }
                    Ok(Err(_)) => {
                        if after != before {
                            ctx.violation("move_at(same parent)|fails-but-changes-the-order", w(json!({})));
                        }
                    }
                }
            }
        }
    }
}

fn candidate_values(spec: &'static CharacterDataSpec, v: AutosarVersion) -> Vec<CharacterData> {
    let mut out: Vec<CharacterData> = vec![
        CharacterData::String("".into()),
        CharacterData::String("x".into()),
        CharacterData::String("not a member!".into()),
        CharacterData::UnsignedInteger(7),
        CharacterData::Float(1.5),
        CharacterData::Enum(EnumItem::Abstract),
        CharacterData::Enum(EnumItem::En),
    ];
    match spec {
        CharacterDataSpec::Enum { items } => {
            for (item, _) in items.iter() {
                out.push(CharacterData::Enum(*item));
                out.push(CharacterData::String(item.to_str().to_string()));
            }
        }
        CharacterDataSpec::Pattern { regex, max_length, .. } => {
            let mut ctr = 0;
            let m = sample_for_regex(regex, &mut ctr);
            out.push(CharacterData::String(m.clone()));
            out.push(CharacterData::String(format!("{m}!")));
            out.push(CharacterData::String(format!(" {m}")));
            if let Some(mx) = max_length {
                for len in [*mx - 1, *mx, *mx + 1] {
                    out.push(CharacterData::String("a".repeat(len)));
                }
            }
            // numbers are converted to text for pattern kinds by set_character_data
            out.push(CharacterData::UnsignedInteger(12));
        }
        CharacterDataSpec::String { max_length, .. } => {
            out.push(CharacterData::String("a&b<c>".into()));
            if let Some(mx) = max_length {
                for len in [*mx - 1, *mx, *mx + 1] {
                    out.push(CharacterData::String("a".repeat(len)));
                }
            }
        }
        _ => {}
    }
    let _ = v;
    out
}

/// is `val` permitted for `spec` in version `v`, by the harness's reading (typed value must have the spec's kind)
fn value_permitted(val: &CharacterData, spec: &CharacterDataSpec, v: AutosarVersion) -> bool {
    let kind_ok = matches!(
        (val, spec),
        (CharacterData::Enum(_), CharacterDataSpec::Enum { .. })
            | (CharacterData::String(_), CharacterDataSpec::Pattern { .. })
            | (CharacterData::String(_), CharacterDataSpec::String { .. })
            | (CharacterData::UnsignedInteger(_), CharacterDataSpec::UnsignedInteger)
            | (CharacterData::Float(_), CharacterDataSpec::Float)
    );
    if !kind_ok {
        return false;
    }
    let mut out = vec![];
    // no trimming for API values: a value with outer blanks is not a pattern member
    let as_val = match val {
        CharacterData::String(s) => Val::Str(s.clone()),
        other => Val::from_cdata(other),
    };
    if let (CharacterData::String(s), CharacterDataSpec::Pattern { check_fn, max_length, regex }) = (val, spec) {
        return crate::common::specvalid::pattern_accepts(regex, *check_fn, s.as_bytes()) && max_length.is_none_or(|m| s.len() <= m);
    }
    if let (CharacterData::String(s), CharacterDataSpec::String { max_length, .. }) = (val, spec) {
        return max_length.is_none_or(|m| s.len() <= m);
    }
    value_violations(&as_val, spec, v, "", &mut out);
    out.is_empty()
}

fn explore_values(ctx: &Ctx, cnt: &Cnt, r: &Reach, seen_attr: &std::sync::Mutex<HashSet<(u16, usize)>>, t: ElementType) {
    let v = r.version;
    let path = &r.path[&t];
    let Ok((m, f, e)) = build_chain(path, v) else { return };
    let w = |extra: Value| json!({"version": format!("{v:?}"), "element": e.element_name().to_str(), "access_path": path.iter().map(|s| s.name.to_str()).collect::<Vec<_>>(), "op": extra});
    // character data
    if t.content_mode() == ContentMode::Characters {
        if let Some(spec) = t.chardata_spec() {
            for val in candidate_values(spec, v) {
                cnt.values.fetch_add(1, Ordering::Relaxed);
                // set_character_data converts numbers/enums to text for String/Pattern kinds
                let effective = match (&val, spec) {
                    (CharacterData::String(_), _) => val.clone(),
                    (other, CharacterDataSpec::Pattern { .. } | CharacterDataSpec::String { .. }) => CharacterData::String(other.to_string()),
                    _ => val.clone(),
                };
                let expect = value_permitted(&effective, spec, v);
                match guarded(|| e.set_character_data(val.clone())) {
                    Err(msg) => ctx.violation(format!("panic|set_character_data|{}", last_panic_loc()), w(json!({"value": format!("{val:?}"), "msg": msg}))),
                    Ok(res) => {
                        if res.is_ok() != expect {
                            ctx.violation(
                                format!("value|set_character_data-accepted={}-but-permitted={expect}|{}", res.is_ok(), spec_kind(spec)),
                                w(json!({"value": format!("{val:?}")})),
                            );
                        }
                        // an empty string is "no value" once written (DESIGN section 8): not compared after reload
                        if res.is_ok() && !matches!(&val, CharacterData::String(s) if s.is_empty()) {
                            check_reload(ctx, cnt, &m, &f, v, &|| w(json!({"set_character_data": format!("{val:?}")})));
                        }
                    }
                }
            }
        }
    }
    // attributes: every attribute name the type lists in any version, plus two it does not list
    let mut names: Vec<AttributeName> = crate::common::specgraph::attribute_specs(t).into_iter().map(|a| a.0).collect();
    for extra in [AttributeName::Dest, AttributeName::Uuid, AttributeName::T] {
        if !names.contains(&extra) {
            names.push(extra);
        }
    }
    if t == ElementType::ROOT {
        return;
    }
    for an in names {
        let aspec = t.find_attribute_spec(an);
        // one element type per (datatype, attribute) is enough
        if !seen_attr.lock().unwrap().insert((t.verif_ids().2, an as usize)) {
            continue;
        }
        let in_version = aspec.as_ref().is_some_and(|a| v.compatible(a.version));
        let values: Vec<CharacterData> = match &aspec {
            Some(a) => candidate_values(a.spec, v),
            None => vec![CharacterData::String("x".into()), CharacterData::Enum(EnumItem::Abstract)],
        };
        for val in values {
            cnt.values.fetch_add(2, Ordering::Relaxed);
            let expect = in_version && aspec.as_ref().is_some_and(|a| value_permitted(&val, a.spec, v));
            let was = e.attribute_value(an);
            match guarded(|| e.set_attribute(an, val.clone())) {
                Err(msg) => ctx.violation(format!("panic|set_attribute|{}", last_panic_loc()), w(json!({"attribute": an.to_str(), "value": format!("{val:?}"), "msg": msg}))),
                Ok(res) => {
                    if res.is_ok() != expect {
                        let why = if !in_version && aspec.is_some() { "attribute-not-in-file-version".to_string() } else { aspec.as_ref().map_or("unknown-attribute".into(), |a| spec_kind(a.spec)) };
                        ctx.violation(format!("attribute|set_attribute-accepted={}-but-permitted={expect}|{why}", res.is_ok()), w(json!({"attribute": an.to_str(), "value": format!("{val:?}")})));
                    }
                    if res.is_ok() {
                        check_reload(ctx, cnt, &m, &f, v, &|| w(json!({"set_attribute": an.to_str(), "value": format!("{val:?}")})));
                    }
                }
            }
            // the string form
            let text = val.to_string();
            let expect_s = in_version
                && aspec.as_ref().is_some_and(|a| {
                    let mut out = vec![];
                    match a.spec {
                        CharacterDataSpec::Pattern { check_fn, max_length, regex } => crate::common::specvalid::pattern_accepts(regex, *check_fn, text.as_bytes()) && max_length.is_none_or(|m| text.len() <= m),
                        CharacterDataSpec::String { max_length, .. } => max_length.is_none_or(|m| text.len() <= m),
                        CharacterDataSpec::Enum { items } => {
                            text.parse::<EnumItem>().ok().is_some_and(|it| items.iter().any(|(i, mask)| *i == it && v.compatible(*mask)))
                        }
                        _ => {
                            value_violations(&Val::Str(text.clone()), a.spec, v, "", &mut out);
                            out.is_empty() && text.trim() == text
                        }
                    }
                });
            match guarded(|| e.set_attribute_string(an, &text)) {
                Err(msg) => ctx.violation(format!("panic|set_attribute_string|{}", last_panic_loc()), w(json!({"attribute": an.to_str(), "text": text, "msg": msg}))),
                Ok(res) => {
                    if res.is_ok() != expect_s {
                        let why = if !in_version && aspec.is_some() { "attribute-not-in-file-version".to_string() } else { aspec.as_ref().map_or("unknown-attribute".into(), |a| spec_kind(a.spec)) };
                        ctx.violation(format!("attribute|set_attribute_string-accepted={}-but-permitted={expect_s}|{why}", res.is_ok()), w(json!({"attribute": an.to_str(), "text": text})));
                    }
                    if res.is_ok() {
                        check_reload(ctx, cnt, &m, &f, v, &|| w(json!({"set_attribute_string": an.to_str(), "text": text})));
                    }
                }
            }
            // restore
            let _ = e.remove_attribute(an);
            if let Some(prev) = &was {
                let _ = e.set_attribute(an, prev.clone());
            }
        }
    }
}

fn spec_kind(spec: &CharacterDataSpec) -> String {
    match spec {
        CharacterDataSpec::Enum { .. } => "enum".into(),
        CharacterDataSpec::Pattern { .. } => "pattern".into(),
        CharacterDataSpec::String { .. } => "string".into(),
        CharacterDataSpec::UnsignedInteger => "uint".into(),
        CharacterDataSpec::Float => "float".into(),
    }
}

/// One model, two files of different versions, each owning one package: every kind of ELEMENTS member that exists in the newer
/// version only is moved (move_element_here, move_element_here_at) from the newer file's package into the older file's.
/// Whatever the call answers, each file must afterwards still load strictly on its own.
fn moves_between_files_of_different_versions(ctx: &Ctx, tier: Tier) -> (u64, u64) {
    let mut pairs: Vec<(AutosarVersion, AutosarVersion)> = vec![];
    for i in 1..VERSIONS.len() {
        if tier == Tier::Thorough || i % 4 == 0 || i == VERSIONS.len() - 1 {
            pairs.push((VERSIONS[i - 1], VERSIONS[i]));
        }
    }
    pairs.push((VERSIONS[0], VERSIONS[VERSIONS.len() - 1]));
    let moves = AtomicU64::new(0);
    pairs.par_iter().for_each(|(v_old, v_new)| {
        let r_new = reach(*v_new);
        let Some(path) = r_new.order.iter().find_map(|t| r_new.path.get(t).filter(|p| p.last().is_some_and(|s| s.name == ElementName::Elements) && p.len() == 4).cloned()) else {
            ctx.machinery_error(format!("two-version model: no ELEMENTS type found in {v_new:?}"));
            return;
        };
        let elements_type = path.last().unwrap().etype;
        // (member kind, child): kinds that only the newer version has, and kinds of both versions with a direct child that only the newer one has
        let mut cands: Vec<(ElementName, Option<(ElementName, bool)>)> = vec![];
        for k in sub_specs(elements_type, *v_new) {
            match elements_type.find_sub_element(k.name, *v_old as u32) {
                None => cands.push((k.name, None)),
                Some((kt_old, _)) => {
                    for c in sub_specs(k.etype, *v_new) {
                        if kt_old.find_sub_element(c.name, *v_old as u32).is_none() && c.name != ElementName::ShortName {
                            cands.push((k.name, Some((c.name, c.etype.is_named_in_version(*v_new)))));
                        }
                    }
                }
            }
        }
        for (kind, child) in cands {
            for route in ["move_element_here", "move_element_here_at"] {
                let w = |extra: Value| json!({"kind": "two-version-move", "older_file": format!("{v_old:?}"), "newer_file": format!("{v_new:?}"), "element": kind.to_str(), "child_only_in_newer_version": child.map(|c| c.0.to_str()), "route": route, "detail": extra});
                let built = guarded(|| -> Result<(AutosarModel, ArxmlFile, ArxmlFile, Element, Element), AutosarDataError> {
                    let m = AutosarModel::new();
                    let f_new = m.create_file("new.arxml", *v_new)?;
                    let f_old = m.create_file("old.arxml", *v_old)?;
                    let pkgs = m.root_element().create_sub_element(ElementName::ArPackages)?;
                    let a = pkgs.create_named_sub_element(ElementName::ArPackage, "a")?;
                    let b = pkgs.create_named_sub_element(ElementName::ArPackage, "b")?;
                    a.remove_from_file(&f_old)?;
                    b.remove_from_file(&f_new)?;
                    let e = a.create_sub_element(ElementName::Elements)?.create_named_sub_element(kind, "k")?;
                    if let Some((cname, named)) = child {
                        if named {
                            e.create_named_sub_element(cname, "c")?;
                        } else {
                            e.create_sub_element(cname)?;
                        }
                    }
                    let dest = b.create_sub_element(ElementName::Elements)?;
                    Ok((m, f_new, f_old, e, dest))
                });
                let Ok(Ok((_m, f_new, f_old, e, dest))) = built else {
                    ctx.count("two_version_model_kinds_not_built", 1);
                    continue;
                };
                moves.fetch_add(1, Ordering::Relaxed);
                // what a loader has to say about each file on its own (an element just created may lack a required attribute)
                let problems = |f: &ArxmlFile| -> std::collections::BTreeSet<String> {
                    let Ok(text) = f.serialize() else { return Default::default() }; // a file left without content is not a document
                    let m2 = AutosarModel::new();
                    match m2.load_buffer(text.as_bytes(), "alone.arxml", false) {
                        Ok((_, warnings)) => warnings.iter().map(super::c01::err_class).collect(),
                        Err(err) => std::iter::once(format!("does-not-load:{}", super::c01::err_class(&err))).collect(),
                    }
                };
                let before = [problems(&f_old), problems(&f_new)];
                let r = guarded(|| if route == "move_element_here" { dest.move_element_here(&e) } else { dest.move_element_here_at(&e, 0) });
                let outcome = match &r {
                    Err(msg) => {
                        ctx.violation(format!("two-version-move|{route}|panic|{}", last_panic_loc()), w(json!(msg)));
                        continue;
                    }
                    Ok(Ok(_)) => "Ok".to_string(),
                    Ok(Err(e)) => super::c01::err_class(e),
                };
                ctx.outcome(format!("two-version-move:{outcome}"));
                for (i, (f, label)) in [(&f_old, "older"), (&f_new, "newer")].into_iter().enumerate() {
                    for p in problems(f).difference(&before[i]) {
                        ctx.violation(format!("two-version-move|{route}|{outcome}|{label}-file-invalid-after-the-call|{p}"), w(json!({"problems_before": before[i], "new_problem": p})));
                    }
                }
            }
        }
    });
    (pairs.len() as u64, moves.load(Ordering::Relaxed))
}

pub fn run(tier: Tier) -> i32 {
    let ctx = Ctx::new("C07", tier);
    let cnt = Cnt { models: AtomicU64::new(0), states: AtomicU64::new(0), attempts: AtomicU64::new(0), reloads: AtomicU64::new(0), values: AtomicU64::new(0) };
    let versions: Vec<AutosarVersion> = tier.pick(vec![VERSIONS[0], VERSIONS[8], VERSIONS[17], VERSIONS[20]], VERSIONS.to_vec());
    let mut types_total = 0u64;
    for v in &versions {
        let r = reach(*v);
        for (kind, t, n) in listing_lookup_discrepancies(&r) {
            ctx.violation(format!("spec|{kind}"), json!({"version": format!("{:?}", r.version), "type": t, "name": n.to_str()}));
        }
        // one element type per datatype (content model)
        let mut seen = HashSet::new();
        let reps: Vec<ElementType> = r.order.iter().copied().filter(|t| seen.insert(t.verif_ids().2)).collect();
        types_total += reps.len() as u64;
        reps.par_iter().for_each(|p| explore_type(&ctx, &cnt, &r, *p, tier));
        reps.par_iter().for_each(|p| explore_copy_move(&ctx, &cnt, &r, *p));
        let seen_attr = std::sync::Mutex::new(HashSet::new());
        reps.par_iter().for_each(|t| explore_values(&ctx, &cnt, &r, &seen_attr, *t));
        if ctx.elapsed() > tier.pick(45.0, 1500.0) {
            ctx.count("versions_skipped_by_time_cap", 1);
            break;
        }
    }
    let attempts = cnt.attempts.load(Ordering::Relaxed);
    ctx.count("content_models", cnt.models.load(Ordering::Relaxed));
    ctx.count("content_states", cnt.states.load(Ordering::Relaxed));
    ctx.count("create_copy_move_attempts", attempts);
    ctx.count("serialize_and_lenient_reloads", cnt.reloads.load(Ordering::Relaxed));
    ctx.count("value_and_attribute_attempts", cnt.values.load(Ordering::Relaxed));
    ctx.eval(attempts + cnt.values.load(Ordering::Relaxed) + cnt.reloads.load(Ordering::Relaxed));
    ctx.outcome(format!("states>0:{}", cnt.states.load(Ordering::Relaxed) > 0));
    ctx.sample(json!({"state": "ELEMENTS[]", "op": "create_named_sub_element_at(SYSTEM, x, position 0..=1)"}));
    ctx.assume("'specification order' is decided by the harness's pairwise reading of the group structure (Sequence: index order; Choice: exclusive; equal entries only with multiplicity Any)");
    let cov = json!({
        "states": cnt.states.load(Ordering::Relaxed),
        "transitions": attempts,
        "traces_validated_against_impl": attempts + cnt.values.load(Ordering::Relaxed),
        "content_models": types_total,
        "creation_depth": "2 (3 for content models with few candidates); 1 for very large bags",
        "exhaustive": true,
    });
    // copies across versions are editing calls too: the destination must be valid in its own version
    let (cv_pairs, cv_copies) = super::c13::cross_version_copy_with(&ctx, tier, true);
    ctx.count("cross_version_copy_pairs_checked_for_validity", cv_pairs);
    ctx.count("cross_version_copy_packages", cv_copies);
    let (mv_pairs, mv_moves) = moves_between_files_of_different_versions(&ctx, tier);
    ctx.count("two_version_model_pairs", mv_pairs);
    ctx.count("two_version_model_moves", mv_moves);
    ctx.finish("model_checking", cov)
}

pub fn replay(v: &Value) -> i32 {
    println!("{}", serde_json::to_string_pretty(&v["witness"]).unwrap());
    println!("replay: build the access path with create_(named_)sub_element in a file of the given version, create the listed children, then apply the operation");
    1
}
