//! C02 — the loader is total. Engine lexenum: exhaustive string enumeration.
//!  (i)   all strings of <= L tokens over a ~40 token XML alphabet
//!  (ii)  all documents within 1 (thorough: 2) edits of each seed document
//!  (iii) every prefix of every seed
//!  (iv)  nesting ladder in a child process (stack overflow aborts the process)
use crate::common::*;
use autosar_data::*;
use rayon::prelude::*;
use serde_json::{json, Value};
use std::sync::atomic::{AtomicU64, AtomicUsize, Ordering};
use std::sync::{Arc, Mutex};
use std::time::{Duration, Instant};

pub const HDR: &str = "<?xml version=\"1.0\" encoding=\"utf-8\"?>";
pub fn root_open(v: &str) -> String {
    format!("<AUTOSAR xsi:schemaLocation=\"http://autosar.org/schema/r4.0 {v}\" xmlns=\"http://autosar.org/schema/r4.0\" xmlns:xsi=\"http://www.w3.org/2001/XMLSchema-instance\">")
}

fn tokens() -> Vec<Vec<u8>> {
    let mut t: Vec<Vec<u8>> = vec![];
    for s in ["<", ">", "/", "?", "!", "-", "=", "\"", "'", " ", "\n", "&", ";", "#", "x", "A", "a", "0", ":", "_"] {
        t.push(s.as_bytes().to_vec());
    }
    t.push(vec![0xEF, 0xBB, 0xBF]);
    t.push(vec![0xFF]);
    t.push(vec![0]);
    t.push(HDR.as_bytes().to_vec());
    t.push(root_open("AUTOSAR_4-0-1.xsd").into_bytes());
    t.push(root_open("AUTOSAR_00050.xsd").into_bytes());
    let mut open = root_open("AUTOSAR_00050.xsd").into_bytes();
    open.pop();
    t.push(open);
    for s in [
        "</AUTOSAR>", "<AR-PACKAGES>", "<AR-PACKAGE", "<SHORT-NAME>", "</SHORT-NAME>", "<L-2 L=\"EN\">", "<!--", "-->", "<?xml", "?>",
        " UUID=\"", "<AR-PACKAGE>", "</AR-PACKAGES>",
    ] {
        t.push(s.as_bytes().to_vec());
    }
    t
}

pub fn seeds() -> Vec<(String, Vec<u8>)> {
    let ro = root_open("AUTOSAR_00050.xsd");
    let ro_old = root_open("AUTOSAR_4-0-1.xsd");
    let mut v: Vec<(String, Vec<u8>)> = vec![];
    let mut add = |n: &str, s: String| v.push((n.to_string(), s.into_bytes()));
    add("empty-root", format!("{HDR}\n{ro}</AUTOSAR>"));
    add("selfclosed-packages", format!("{HDR}\n{ro}<AR-PACKAGES/></AUTOSAR>\n"));
    add("package", format!("{HDR}\n{ro}\n<AR-PACKAGES>\n<AR-PACKAGE UUID=\"u1\">\n<SHORT-NAME>p</SHORT-NAME>\n</AR-PACKAGE>\n</AR-PACKAGES>\n</AUTOSAR>"));
    add("nested", format!("{HDR}{ro}<AR-PACKAGES><AR-PACKAGE><SHORT-NAME>a</SHORT-NAME><AR-PACKAGES><AR-PACKAGE><SHORT-NAME>b</SHORT-NAME><ELEMENTS/></AR-PACKAGE></AR-PACKAGES></AR-PACKAGE></AR-PACKAGES></AUTOSAR>"));
    add("mixed-entities", format!("{HDR}{ro}<AR-PACKAGES><AR-PACKAGE><SHORT-NAME>a</SHORT-NAME><DESC><L-2 L='EN'>x &amp; &#65;&#x42; <TT TYPE=\"SGMLTAG\">t</TT> y</L-2></DESC></AR-PACKAGE></AR-PACKAGES></AUTOSAR>"));
    add("comments", format!("{HDR}\n<!-- c0 -->\n{ro}<!--c1--><AR-PACKAGES><!-- a > b < c --><AR-PACKAGE><SHORT-NAME>a</SHORT-NAME><!--c3--></AR-PACKAGE></AR-PACKAGES></AUTOSAR>"));
    add("reference", format!("{HDR}{ro}<AR-PACKAGES><AR-PACKAGE><SHORT-NAME>a</SHORT-NAME><ELEMENTS><SYSTEM><SHORT-NAME>s</SHORT-NAME><FIBEX-ELEMENTS><FIBEX-ELEMENT-REF-CONDITIONAL><FIBEX-ELEMENT-REF DEST=\"CAN-CLUSTER\">/a/c</FIBEX-ELEMENT-REF></FIBEX-ELEMENT-REF-CONDITIONAL></FIBEX-ELEMENTS></SYSTEM><CAN-CLUSTER><SHORT-NAME>c</SHORT-NAME></CAN-CLUSTER></ELEMENTS></AR-PACKAGE></AR-PACKAGES></AUTOSAR>"));
    add("numbers", format!("{HDR}{ro}<AR-PACKAGES><AR-PACKAGE><SHORT-NAME>a</SHORT-NAME><ELEMENTS><CAN-CLUSTER><SHORT-NAME>c</SHORT-NAME><CAN-CLUSTER-VARIANTS><CAN-CLUSTER-CONDITIONAL><BAUDRATE>500000</BAUDRATE><CAN-FD-BAUDRATE>0x1E8480</CAN-FD-BAUDRATE></CAN-CLUSTER-CONDITIONAL></CAN-CLUSTER-VARIANTS></CAN-CLUSTER></ELEMENTS></AR-PACKAGE></AR-PACKAGES></AUTOSAR>"));
    add("bom-standalone", format!("\u{feff}<?xml version=\"1.0\" encoding=\"UTF-8\" standalone=\"no\"?>\r\n{ro}\r\n<AR-PACKAGES>\r\n</AR-PACKAGES>\r\n</AUTOSAR>\r\n"));
    add("pi-inside", format!("{HDR}{ro}<?pi some data?><AR-PACKAGES><?x?></AR-PACKAGES></AUTOSAR>"));
    add("old-version", format!("{HDR}{ro_old}<AR-PACKAGES><AR-PACKAGE><SHORT-NAME>a</SHORT-NAME><CATEGORY>  cat  </CATEGORY><ADMIN-DATA><SDGS><SDG GID=\"g\"><SD GID=\"x\"> v </SD></SDG></SDGS></ADMIN-DATA></AR-PACKAGE></AR-PACKAGES></AUTOSAR>"));
    add("single-quote-header", format!("<?xml version='1.0' encoding='utf-8'?>{}<AR-PACKAGES></AR-PACKAGES></AUTOSAR>", ro.replace('"', "'")));
    v
}

#[derive(Default)]
struct Probe {
    strict_ok: bool,
    lenient_ok: bool,
    check: bool,
    problems: Vec<(String, String)>,
}

fn err_line(e: &AutosarDataError) -> Option<(usize, String)> {
    match e {
        AutosarDataError::LexerError { line, source, .. } => Some((*line, format!("LexerError::{source:?}"))),
        AutosarDataError::ParserError { line, source, .. } => {
            let s = format!("{source:?}");
            let name = s.split(|c: char| !c.is_alphanumeric()).next().unwrap_or("").to_string();
            Some((*line, format!("ParserError::{name}")))
        }
        _ => None,
    }
}

/// run the three entry points on one input and evaluate the C02 oracles
fn probe(input: &[u8]) -> Probe {
    let mut p = Probe::default();
    let lines = 1 + input.iter().filter(|c| **c == b'\n').count();
    let check_line = |what: &str, e: &AutosarDataError, p: &mut Probe| {
        if let Some((line, variant)) = err_line(e) {
            if line < 1 || line > lines {
                p.problems.push((format!("line-out-of-range|{what}|{variant}"), format!("line {line} of {lines}")));
            }
        }
    };
    for strict in [true, false] {
        let what = if strict { "strict" } else { "lenient" };
        match guarded(|| {
            let m = AutosarModel::new();
            let r = m.load_buffer(input, "x.arxml", strict);
            r.map(|(_f, w)| w)
        }) {
            Err(_msg) => p.problems.push((format!("panic|{what}|{}", last_panic_loc()), _msg)),
            Ok(Ok(w)) => {
                if strict {
                    p.strict_ok = true
                } else {
                    p.lenient_ok = true
                }
                for e in &w {
                    check_line("lenient-warning", e, &mut p);
                }
            }
            Ok(Err(e)) => check_line(what, &e, &mut p),
        }
    }
    match guarded(|| check_buffer(input)) {
        Err(msg) => p.problems.push((format!("panic|check_buffer|{}", last_panic_loc()), msg)),
        Ok(b) => p.check = b,
    }
    if (p.strict_ok || p.lenient_ok) && !p.check {
        p.problems.push(("check_buffer-rejects-loadable".into(), format!("strict_ok={} lenient_ok={}", p.strict_ok, p.lenient_ok)));
    }
    p
}

struct Watch {
    slots: Vec<Mutex<Option<(Instant, Vec<u8>)>>>,
}
thread_local! { static SLOT: std::cell::Cell<usize> = const { std::cell::Cell::new(usize::MAX) }; }
static NEXT_SLOT: AtomicUsize = AtomicUsize::new(0);

fn run_case(ctx: &Ctx, watch: &Watch, family: &str, input: &[u8], stats: &Stats) {
    let slot = SLOT.with(|s| {
        if s.get() == usize::MAX {
            s.set(NEXT_SLOT.fetch_add(1, Ordering::Relaxed) % watch.slots.len());
        }
        s.get()
    });
    // publishing every case costs a lock + copy; only do it for inputs that could take long
    let publish = input.len() > 64;
    if publish {
        *watch.slots[slot].lock().unwrap() = Some((Instant::now(), input.to_vec()));
    }
    let p = probe(input);
    if publish {
        *watch.slots[slot].lock().unwrap() = None;
    }
    stats.cases.fetch_add(1, Ordering::Relaxed);
    if p.strict_ok {
        stats.strict_ok.fetch_add(1, Ordering::Relaxed);
    }
    if p.lenient_ok {
        stats.lenient_ok.fetch_add(1, Ordering::Relaxed);
    }
    if p.check {
        stats.check_true.fetch_add(1, Ordering::Relaxed);
    }
    for (key, detail) in p.problems {
        ctx.violation(key, json!({"kind": "load", "family": family, "input": bytes_to_json(input), "detail": detail}));
    }
}

#[derive(Default)]
struct Stats {
    cases: AtomicU64,
    strict_ok: AtomicU64,
    lenient_ok: AtomicU64,
    check_true: AtomicU64,
}

fn tokenize(doc: &[u8]) -> Vec<Vec<u8>> {
    // tags and text runs; inside tags additionally split at blanks so attributes are tokens of their own
    let mut out = vec![];
    let mut i = 0;
    while i < doc.len() {
        if doc[i] == b'<' {
            let end = doc[i..].iter().position(|c| *c == b'>').map(|p| i + p + 1).unwrap_or(doc.len());
            let tag = &doc[i..end];
            let mut start = 0;
            for (k, c) in tag.iter().enumerate() {
                if *c == b' ' && k > 0 {
                    out.push(tag[start..k].to_vec());
                    start = k;
                }
            }
            out.push(tag[start..].to_vec());
            i = end;
        } else {
            let end = doc[i..].iter().position(|c| *c == b'<').map(|p| i + p).unwrap_or(doc.len());
            out.push(doc[i..end].to_vec());
            i = end;
        }
    }
    out
}

const EDIT_BYTES: [u8; 14] = [b'<', b'>', b'/', b'?', b'!', b'-', b'=', b'"', b'\'', b' ', b'\n', b'&', b';', 0xFF];

/// all single edits of a document: token deletion / duplication / replacement, byte replacement / insertion / deletion
fn single_edits(doc: &[u8], toks: &[Vec<u8>], f: &mut dyn FnMut(Vec<u8>)) {
    let parts = tokenize(doc);
    for i in 0..parts.len() {
        let join = |mid: &[&[u8]]| -> Vec<u8> {
            let mut v = vec![];
            for p in &parts[..i] {
                v.extend_from_slice(p);
            }
            for m in mid {
                v.extend_from_slice(m);
            }
            for p in &parts[i + 1..] {
                v.extend_from_slice(p);
            }
            v
        };
        f(join(&[]));
        f(join(&[&parts[i], &parts[i]]));
        for t in toks {
            f(join(&[t]));
        }
    }
    for i in 0..=doc.len() {
        for b in EDIT_BYTES {
            let mut v = doc.to_vec();
            v.insert(i, b);
            f(v);
            if i < doc.len() && doc[i] != b {
                let mut v = doc.to_vec();
                v[i] = b;
                f(v);
            }
        }
        if i < doc.len() {
            let mut v = doc.to_vec();
            v.remove(i);
            f(v);
        }
    }
}

/// the path of this binary for child processes; when the file was replaced by a rebuild while this process runs, Linux
/// reports the old path with the suffix " (deleted)" - the new file at the same path is the right one then
fn own_executable() -> std::path::PathBuf {
    let p = std::env::current_exe().unwrap_or_else(|_| std::path::PathBuf::from(format!("{VERIF_DIR}/.target/release/vcheck")));
    match p.to_str().and_then(|s| s.strip_suffix(" (deleted)")) {
        Some(s) => std::path::PathBuf::from(s),
        None => p,
    }
}

fn nest_doc(kind: &str, depth: usize) -> Vec<u8> {
    let ro = root_open("AUTOSAR_00050.xsd");
    let mut s = String::with_capacity(depth * 80);
    s.push_str(HDR);
    s.push_str(&ro);
    match kind {
        "packages" => {
            for i in 0..depth {
                s.push_str(&format!("<AR-PACKAGES><AR-PACKAGE><SHORT-NAME>p{i}</SHORT-NAME>"));
            }
            for _ in 0..depth {
                s.push_str("</AR-PACKAGE></AR-PACKAGES>");
            }
        }
        _ => {
            s.push_str("<AR-PACKAGES><AR-PACKAGE><SHORT-NAME>p</SHORT-NAME><DESC><L-2 L=\"EN\">");
            for i in 0..depth {
                s.push_str(if i % 2 == 0 { "<SUB>" } else { "<SUP>" });
            }
            for i in (0..depth).rev() {
                s.push_str(if i % 2 == 0 { "</SUB>" } else { "</SUP>" });
            }
            s.push_str("</L-2></DESC></AR-PACKAGE></AR-PACKAGES>");
        }
    }
    s.push_str("</AUTOSAR>");
    s.into_bytes()
}

/// child process: load one nesting document strictly and leniently, drop it, exit 0
pub fn child_nest(args: &[String]) -> i32 {
    let kind = &args[0];
    let depth: usize = args[1].parse().unwrap();
    let doc = nest_doc(kind, depth);
    let p = probe(&doc);
    if !p.problems.is_empty() {
        println!("PROBLEMS {:?}", p.problems);
        return 3;
    }
    println!("DONE strict_ok={} lenient_ok={}", p.strict_ok, p.lenient_ok);
    0
}

fn nesting_ladder(ctx: &Ctx, max_pow: u32) {
    let exe = own_executable();
    for kind in ["packages", "mixed"] {
        let mut steps: Vec<usize> = vec![];
        for i in 1..=max_pow {
            steps.push(10usize.pow(i));
            if i < max_pow {
                steps.push(3 * 10usize.pow(i));
            }
        }
        for depth in steps {
            let t0 = Instant::now();
            let out = std::process::Command::new(&exe).args(["child", "c02-nest", kind, &depth.to_string()]).output();
            ctx.eval(1);
            ctx.count("nesting_cases", 1);
            match out {
                Err(e) => ctx.machinery_error(format!("cannot spawn child: {e}")),
                Ok(o) => {
                    let code = o.status.code();
                    ctx.outcome(format!("nest:{kind}:{code:?}"));
                    if code != Some(0) {
                        let text = String::from_utf8_lossy(&o.stdout).to_string();
                        let how = if code.is_none() { "abort" } else { "problem" };
                        ctx.violation(
                            format!("{how}|nesting|{kind}"),
                            json!({"kind": "nest", "nest_kind": kind, "depth": depth, "exit": format!("{:?}", o.status), "stdout": text,
                                   "stderr": String::from_utf8_lossy(&o.stderr).chars().take(300).collect::<String>()}),
                        );
                        break; // deeper documents fail the same way
                    }
                    let secs = t0.elapsed().as_secs_f64();
                    let mb = (depth * 70) as f64 / 1e6;
                    if secs > 10.0 + 4.0 * mb {
                        ctx.violation(format!("slow|nesting|{kind}"), json!({"kind": "nest", "nest_kind": kind, "depth": depth, "seconds": secs}));
                    }
                }
            }
        }
    }
}

pub fn run(tier: Tier) -> i32 {
    let ctx = Arc::new(Ctx::new("C02", tier));
    let toks = tokens();
    let stats = Stats::default();
    let nthreads = rayon::current_num_threads();
    let watch = Arc::new(Watch { slots: (0..nthreads.max(1) * 2).map(|_| Mutex::new(None)).collect() });
    // watchdog: a case that runs longer than 20 s is a hang
    {
        let watch = watch.clone();
        let ctx = ctx.clone();
        std::thread::spawn(move || loop {
            std::thread::sleep(Duration::from_millis(500));
            for s in &watch.slots {
                let g = s.lock().unwrap();
                if let Some((t0, input)) = &*g {
                    if t0.elapsed() > Duration::from_secs(20) {
                        ctx.violation("hang|load", json!({"kind": "load", "family": "watchdog", "input": bytes_to_json(input)}));
                        let code = ctx.finish("exploration", json!({"evaluations": 1, "distinct_nontrivial": 0, "rule": "aborted by watchdog", "exhaustive": false}));
                        std::process::exit(code.max(1));
                    }
                }
            }
        });
    }

    // (i) all token strings of length <= L
    let l = tier.pick(4usize, 5usize);
    let n = toks.len();
    let mut total_i: u64 = 0;
    for len in 0..=l {
        total_i += (n as u64).pow(len as u32);
    }
    // parallelise over the first two tokens
    let prefixes: Vec<Vec<usize>> = {
        let mut v = vec![vec![]];
        for a in 0..n {
            v.push(vec![a]);
            for b in 0..n {
                v.push(vec![a, b]);
            }
        }
        v
    };
    prefixes.par_iter().for_each(|pre| {
        let mut buf: Vec<u8> = vec![];
        for &i in pre {
            buf.extend_from_slice(&toks[i]);
        }
        if pre.len() < 2 {
            run_case(&ctx, &watch, "tokens", &buf, &stats);
            return;
        }
        // depth-first over the remaining positions
        fn rec(ctx: &Ctx, watch: &Watch, stats: &Stats, toks: &[Vec<u8>], buf: &mut Vec<u8>, remaining: usize) {
            run_case(ctx, watch, "tokens", buf, stats);
            if remaining == 0 {
                return;
            }
            for t in toks {
                let len = buf.len();
                buf.extend_from_slice(t);
                rec(ctx, watch, stats, toks, buf, remaining - 1);
                buf.truncate(len);
            }
        }
        rec(&ctx, &watch, &stats, &toks, &mut buf, l - 2);
    });
    let count_i = stats.cases.load(Ordering::Relaxed);
    if count_i != total_i {
        ctx.machinery_error(format!("token enumeration produced {count_i} strings, expected {total_i}"));
    }
    ctx.count("token_strings", count_i);
    ctx.sample(json!({"family": "tokens", "input": "<?xml?>", "note": "strings of <= L tokens"}));

    // (ii) + (iii) seeds: prefixes and edits
    let seeds = seeds();
    for (name, doc) in &seeds {
        let p = probe(doc);
        if !p.strict_ok {
            ctx.machinery_error(format!("seed {name} does not load strictly"));
        }
    }
    let before = stats.cases.load(Ordering::Relaxed);
    seeds.par_iter().for_each(|(_name, doc)| {
        for i in 0..=doc.len() {
            run_case(&ctx, &watch, "prefix", &doc[..i], &stats);
        }
    });
    ctx.count("prefixes", stats.cases.load(Ordering::Relaxed) - before);
    let before = stats.cases.load(Ordering::Relaxed);
    seeds.par_iter().for_each(|(_name, doc)| {
        let mut firsts: Vec<Vec<u8>> = vec![];
        single_edits(doc, &toks, &mut |v| firsts.push(v));
        firsts.par_iter().for_each(|v| run_case(&ctx, &watch, "edit1", v, &stats));
    });
    ctx.count("edit1", stats.cases.load(Ordering::Relaxed) - before);
    if tier == Tier::Thorough {
        // two edits: second edit applied to every single-edit variant of the shorter seeds (token edits and byte edits alike)
        let before = stats.cases.load(Ordering::Relaxed);
        for (_name, doc) in seeds.iter().filter(|(_, d)| d.len() <= 260) {
            let mut firsts: Vec<Vec<u8>> = vec![];
            single_edits(doc, &toks, &mut |v| firsts.push(v));
            firsts.par_iter().for_each(|v1| {
                single_edits(v1, &toks, &mut |v2| run_case(&ctx, &watch, "edit2", &v2, &stats));
            });
            if ctx.elapsed() > 1500.0 {
                ctx.count("edit2_capped", 1);
                break;
            }
        }
        ctx.count("edit2", stats.cases.load(Ordering::Relaxed) - before);
    }
    ctx.sample(json!({"family": "edit1", "seed": seeds[2].0, "input": bytes_to_json(&seeds[2].1)}));

    // (iv) nesting ladder
    nesting_ladder(&ctx, tier.pick(5, 6));

    let total = stats.cases.load(Ordering::Relaxed);
    ctx.eval(total);
    let s_ok = stats.strict_ok.load(Ordering::Relaxed);
    let l_ok = stats.lenient_ok.load(Ordering::Relaxed);
    let c_ok = stats.check_true.load(Ordering::Relaxed);
    ctx.outcome(format!("strict_ok>0:{}", s_ok > 0));
    ctx.outcome(format!("lenient_only>0:{}", l_ok > s_ok));
    ctx.assume("number of lines of an input = 1 + number of '\\n' bytes");
    ctx.assume("VERIF_SEED selects nothing: the enumeration is complete and deterministic");
    let cov = json!({
        "evaluations": total + ctx.evaluations.load(Ordering::Relaxed) - total,
        "distinct_nontrivial": l_ok,
        "rule": format!("every byte string that is a concatenation of <= {l} tokens of a {n}-token XML alphabet; every prefix and every single token/byte edit of {} seed documents{}; nesting ladder 10^1..10^{} in child processes. Each input goes to load_buffer(strict), load_buffer(lenient) and check_buffer. Distinct: inputs are generated without repetition within a family; non-trivial: inputs that lenient loading accepts (reach the parser proper).", seeds.len(), if tier == Tier::Thorough {" and every pair of edits of the seeds <= 260 bytes"} else {""}, tier.pick(5, 6)),
        "exhaustive": true,
        "length_bound_tokens": l,
        "alphabet_tokens": n,
        "strict_ok": s_ok, "lenient_ok": l_ok, "check_buffer_true": c_ok,
    });
    ctx.finish("exploration", cov)
}

pub fn replay(v: &Value) -> i32 {
    let w = &v["witness"];
    if w["kind"] == "nest" {
        let exe = own_executable();
        let out = std::process::Command::new(exe)
            .args(["child", "c02-nest", w["nest_kind"].as_str().unwrap(), &w["depth"].to_string()])
            .status()
            .unwrap();
        println!("child exit: {out:?}");
        return if out.code() == Some(0) { 0 } else { 1 };
    }
    let input = json_to_bytes(&w["input"]).expect("witness has no input");
    let p = probe(&input);
    println!("strict_ok={} lenient_ok={} check_buffer={}", p.strict_ok, p.lenient_ok, p.check);
    for (k, d) in &p.problems {
        println!("PROBLEM {k}: {d}");
    }
    if p.problems.is_empty() {
        0
    } else {
        1
    }
}
