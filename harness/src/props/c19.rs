//! C19 — pattern validators accept exactly the language of their published regex. Engine dfaconf.
use crate::common::regexdfa::Dfa;
use crate::common::*;
use autosar_data_specification::*;
use rayon::prelude::*;
use serde_json::{json, Value};
use std::collections::{BTreeMap, BTreeSet};
use std::sync::atomic::{AtomicU64, Ordering};

pub struct Pair {
    pub regex: &'static str,
    pub check_fn: fn(&[u8]) -> bool,
    pub max_lengths: BTreeSet<Option<usize>>,
}

/// all validator/regex pairs reachable through the public type graph
pub fn collect_pairs(ctx: Option<&Ctx>) -> Vec<Pair> {
    let mut by_fn: BTreeMap<usize, Pair> = BTreeMap::new();
    let mut by_regex: BTreeMap<&'static str, usize> = BTreeMap::new();
    let mut visit = |spec: &'static CharacterDataSpec| {
        if let CharacterDataSpec::Pattern { check_fn, regex, max_length } = spec {
            let key = *check_fn as usize;
            let e = by_fn.entry(key).or_insert(Pair { regex, check_fn: *check_fn, max_lengths: BTreeSet::new() });
            e.max_lengths.insert(*max_length);
            if e.regex != *regex {
                if let Some(c) = ctx {
                    c.violation("pairing|one-validator-two-regexes", json!({"a": e.regex, "b": regex}));
                }
            }
            let prev = *by_regex.entry(regex).or_insert(key);
            if prev != key {
                // two functions for one regex text is harmless, but noted
                if let Some(c) = ctx {
                    c.count("regex_with_two_validators", 1);
                }
            }
        }
    };
    for t in ElementType::verif_all() {
        if let Some(s) = t.chardata_spec() {
            visit(s);
        }
        for (_, s, _) in crate::common::specgraph::attribute_specs(t) {
            visit(s);
        }
    }
    let mut v: Vec<Pair> = by_fn.into_values().collect();
    v.sort_by_key(|p| p.regex);
    v
}

fn strings_upto(alpha: &[u8], max_len: usize, f: &mut dyn FnMut(&[u8])) {
    fn rec(alpha: &[u8], buf: &mut Vec<u8>, remaining: usize, f: &mut dyn FnMut(&[u8])) {
        f(buf);
        if remaining == 0 {
            return;
        }
        for &b in alpha {
            buf.push(b);
            rec(alpha, buf, remaining - 1, f);
            buf.pop();
        }
    }
    let mut buf = vec![];
    rec(alpha, &mut buf, max_len, f);
}

fn signature(dfa: &Dfa, class_of: &[usize], sink: Option<u16>, s: &[u8]) -> String {
    let mut st = dfa.start;
    for (i, b) in s.iter().enumerate() {
        let nx = dfa.trans[st as usize][*b as usize];
        if Some(nx) == sink {
            let _ = i;
            return format!("state{st}+class{}", class_of[*b as usize]);
        }
        st = nx;
    }
    format!("state{st}+end")
}

struct PerRegex {
    states: usize,
    classes: usize,
    w: usize,
    k: usize,
    sweep_len: usize,
    strings: u64,
    members: u64,
    transitions: u64,
}

fn check_one(ctx: &Ctx, pair: &Pair, tier: Tier) -> Option<PerRegex> {
    let dfa = match Dfa::from_regex(pair.regex) {
        Ok(d) => d,
        Err(e) => {
            ctx.machinery_error(format!("cannot compile {:?}: {e}", pair.regex));
            return None;
        }
    };
    let oracle = match regex::bytes::RegexBuilder::new(&format!("^(?:{})$", pair.regex)).unicode(false).build() {
        Ok(r) => r,
        Err(e) => {
            ctx.machinery_error(format!("regex crate rejects {:?}: {e}", pair.regex));
            return None;
        }
    };
    let (class_of, _) = dfa.byte_classes();
    let sink = dfa.sink();
    let uses_dot = pair.regex.replace("\\.", "").contains('.');
    let strings = AtomicU64::new(0);
    let members = AtomicU64::new(0);
    let test = |s: &[u8]| {
        if uses_dot && s.contains(&b'\r') {
            return; // XSD and Rust dialects differ on '.' vs CR; not judged
        }
        strings.fetch_add(1, Ordering::Relaxed);
        let expect = dfa.accepts(s);
        if expect {
            members.fetch_add(1, Ordering::Relaxed);
        }
        if oracle.is_match(s) != expect {
            ctx.machinery_error(format!("model and regex crate disagree on {:?} for {:?}", String::from_utf8_lossy(s), pair.regex));
        }
        match guarded(|| (pair.check_fn)(s)) {
            Ok(got) => {
                if got != expect {
                    let kind = if got { "accepts-non-member" } else { "rejects-member" };
                    // signature: where the model leaves the language (last viable state + class of the offending byte),
                    // so that one wrong cell of an implementation gives one key and a different wrong cell another
                    let sig = signature(&dfa, &class_of, sink, s);
                    ctx.violation(format!("{kind}|{}|{sig}", pair.regex), json!({"kind": "validator", "regex": pair.regex, "input": bytes_to_json(s), "validator_says": got}));
                }
            }
            Err(m) => ctx.violation(format!("panic|{}", pair.regex), json!({"kind": "validator", "regex": pair.regex, "input": bytes_to_json(s), "msg": m})),
        }
    };
    let cover = dfa.state_cover();
    let w = dfa.characterisation_set();
    let (_, reps) = dfa.byte_classes();
    let mut sigma: Vec<u8> = reps.clone();
    for extra in [0u8, 0x80, 0xFF, b' ', b'\n', b'\t'] {
        if !sigma.contains(&extra) {
            sigma.push(extra);
        }
    }
    // (a) transition cover: every state x every byte x W
    let mut transitions = 0u64;
    for p in &cover {
        for b in 0..=255u8 {
            transitions += 1;
            for suffix in &w {
                let mut s = p.clone();
                s.push(b);
                s.extend_from_slice(suffix);
                test(&s);
            }
        }
    }
    // (b) P x Sigma_r^{<=k+1} x W   (k extra implementation states)
    let n = dfa.n();
    let budget: u64 = tier.pick(3_000_000, 300_000_000);
    let mut k = tier.pick(1usize, 3usize);
    while k > 0 && (cover.len() as u64) * (w.len() as u64) * (reps.len() as u64).pow(k as u32 + 1) > budget {
        k -= 1;
    }
    for p in &cover {
        strings_upto(&reps, k + 1, &mut |mid| {
            for suffix in &w {
                let mut s = p.clone();
                s.extend_from_slice(mid);
                s.extend_from_slice(suffix);
                test(&s);
            }
        });
    }
    // (c) all strings up to a length over the reduced alphabet
    let mut sweep_len = tier.pick(6usize, 10usize);
    let sweep_budget: u64 = tier.pick(2_000_000, 300_000_000);
    while sweep_len > 2 && (sigma.len() as u64).pow(sweep_len as u32) > sweep_budget {
        sweep_len -= 1;
    }
    strings_upto(&sigma, sweep_len, &mut |s| test(s));
    // (d) one-edit neighbours of a shortest member through every state
    let best = dfa.shortest_members();
    for (st, p) in cover.iter().enumerate() {
        if let Some(suffix) = &best[st] {
            let mut m = p.clone();
            m.extend_from_slice(suffix);
            test(&m);
            for i in 0..=m.len() {
                for b in 0..=255u8 {
                    let mut v = m.clone();
                    v.insert(i, b);
                    test(&v);
                    if i < m.len() {
                        let mut v = m.clone();
                        v[i] = b;
                        test(&v);
                    }
                }
                if i < m.len() {
                    let mut v = m.clone();
                    v.remove(i);
                    test(&v);
                }
            }
        }
    }
    // (e) length boundaries for counted repetitions: members and non-members around 127/128/129 repeated class bytes
    if pair.regex.contains("{0,127}") {
        for len in [126usize, 127, 128, 129, 130, 255, 256, 257] {
            for lead in [&b""[..], b"/", b"a/", b"/a/b/"] {
                let mut s = lead.to_vec();
                s.push(b'a');
                s.extend(std::iter::repeat(b'b').take(len - 1));
                test(&s);
                let mut t = s.clone();
                t.extend_from_slice(b"/c");
                test(&t);
            }
        }
    }
    Some(PerRegex {
        states: n,
        classes: reps.len(),
        w: w.len(),
        k,
        sweep_len,
        strings: strings.load(Ordering::Relaxed),
        members: members.load(Ordering::Relaxed),
        transitions,
    })
}

pub fn run(tier: Tier) -> i32 {
    let ctx = Ctx::new("C19", tier);
    let pairs = collect_pairs(Some(&ctx));
    ctx.count("validator_regex_pairs", pairs.len() as u64);
    if pairs.len() != 28 {
        ctx.machinery_error(format!("expected 28 validator/regex pairs, found {}", pairs.len()));
    }
    let results: Vec<(usize, Option<PerRegex>)> = pairs.par_iter().enumerate().map(|(i, p)| (i, check_one(&ctx, p, tier))).collect();
    let mut states = 0u64;
    let mut transitions = 0u64;
    let mut strings = 0u64;
    let mut members = 0u64;
    let mut per = vec![];
    let mut min_k = usize::MAX;
    let mut min_len = usize::MAX;
    for (i, r) in &results {
        if let Some(r) = r {
            states += r.states as u64;
            transitions += r.transitions;
            strings += r.strings;
            members += r.members;
            min_k = min_k.min(r.k);
            min_len = min_len.min(r.sweep_len);
            per.push(json!({"regex": pairs[*i].regex, "dfa_states": r.states, "byte_classes": r.classes, "W": r.w, "extra_states_k": r.k,
                            "sweep_length": r.sweep_len, "strings": r.strings, "members": r.members}));
            ctx.outcome(format!("{}:{}", pairs[*i].regex, r.members > 0));
        }
    }
    ctx.eval(strings);
    ctx.sample(json!({"regex": pairs[0].regex, "suite": "state cover x all 256 bytes x characterisation set; cover x reduced-alphabet^(<=k+1) x W; all strings <= L over the reduced alphabet; 1-edit neighbours of a member through every state"}));
    ctx.assume("'.' means any byte except \\n; inputs containing \\r are not judged for regexes that use '.'");
    ctx.assume("W-method completeness holds for implementations with at most k more states than the minimal DFA (k per regex in the evidence)");
    let cov = json!({
        "states": states,
        "transitions": transitions,
        "traces_validated_against_impl": strings,
        "members_tested": members,
        "extra_states_k_min": min_k,
        "sweep_length_min": min_len,
        "per_regex": per,
        "exhaustive": true,
    });
    ctx.finish("model_checking", cov)
}

pub fn replay(v: &Value) -> i32 {
    let w = &v["witness"];
    let regex = w["regex"].as_str().unwrap();
    let input = json_to_bytes(&w["input"]).unwrap();
    let pairs = collect_pairs(None);
    let p = pairs.iter().find(|p| p.regex == regex).expect("regex not found");
    let dfa = Dfa::from_regex(regex).unwrap();
    let oracle = regex::bytes::RegexBuilder::new(&format!("^(?:{regex})$")).unicode(false).build().unwrap();
    let got = (p.check_fn)(&input);
    println!("regex {regex:?} input {:?}: validator={got} model={} regex-crate={}", String::from_utf8_lossy(&input), dfa.accepts(&input), oracle.is_match(&input));
    if got == dfa.accepts(&input) {
        0
    } else {
        1
    }
}
