//! C18 — specification tables are exact. Complete sweep of the finite tables plus all one-edit neighbours.
use crate::common::specgraph::VERSIONS;
use crate::common::*;
use autosar_data::*;
use autosar_data_specification::*;
use rayon::prelude::*;
use serde_json::json;
use std::collections::{HashMap, HashSet};
use std::str::FromStr;
use std::sync::atomic::{AtomicU64, Ordering};

fn neighbours(s: &str) -> Vec<Vec<u8>> {
    neighbours_b(s.as_bytes())
}
fn neighbours_b(b: &[u8]) -> Vec<Vec<u8>> {
    let mut out = vec![];
    for i in 0..b.len() {
        let mut d = b.to_vec();
        d.remove(i);
        out.push(d);
        for c in [b'A', b'a', b'-', b'_', b'0', b' ', b'Z'] {
            if c != b[i] {
                let mut r = b.to_vec();
                r[i] = c;
                out.push(r);
            }
            let mut ins = b.to_vec();
            ins.insert(i, c);
            out.push(ins);
        }
        let mut f = b.to_vec();
        f[i] = if f[i].is_ascii_uppercase() { f[i].to_ascii_lowercase() } else { f[i].to_ascii_uppercase() };
        if f != b {
            out.push(f);
        }
        if i + 1 < b.len() && b[i] != b[i + 1] {
            let mut sw = b.to_vec();
            sw.swap(i, i + 1);
            out.push(sw);
        }
        if b[i] == b'-' {
            let mut r = b.to_vec();
            r[i] = b'_';
            out.push(r);
        }
    }
    for c in [b'A', b'-', b'0', b' ', 0xff, 0, b'S'] {
        let mut e = b.to_vec();
        e.push(c);
        out.push(e);
        let mut p = vec![c];
        p.extend_from_slice(b);
        out.push(p);
    }
    // truncations to every prefix and suffix
    for i in 1..b.len() {
        out.push(b[..i].to_vec());
        out.push(b[i..].to_vec());
    }
    out
}

macro_rules! sweep_names {
    ($ctx:expr, $ty:ty, $label:expr, $tested:expr, $two:expr) => {{
        let table: &'static [&'static str] = <$ty>::verif_string_table();
        let index: HashMap<&str, usize> = table.iter().enumerate().map(|(i, s)| (*s, i)).collect();
        if index.len() != table.len() {
            $ctx.violation(format!("{}|distinct-items-share-a-text", $label), json!({"table_len": table.len(), "distinct": index.len()}));
        }
        table.par_iter().enumerate().for_each(|(i, s)| {
            // text -> item -> text, and item value == table index
            match <$ty>::from_str(s) {
                Ok(v) => {
                    if v.to_str() != *s || (v as usize) != i {
                        $ctx.violation(format!("{}|round-trip", $label), json!({"text": s, "got": v.to_str()}));
                    }
                    if format!("{v}") != *s || format!("{v:?}") != *s {
                        $ctx.violation(format!("{}|display-differs", $label), json!({"text": s}));
                    }
                }
                Err(_) => $ctx.violation(format!("{}|member-not-parsed", $label), json!({"text": s})),
            }
            let nbs = neighbours(s);
            $tested.fetch_add(nbs.len() as u64, Ordering::Relaxed);
            let mut level2: Vec<Vec<u8>> = vec![];
            if $two {
                for nb in &nbs {
                    if !nb.is_empty() {
                        level2.extend(neighbours_b(nb));
                    }
                }
                $tested.fetch_add(level2.len() as u64, Ordering::Relaxed);
            }
            for nb in nbs.into_iter().chain(level2.into_iter()) {
                let member = std::str::from_utf8(&nb).ok().and_then(|t| index.get(t).copied());
                match (<$ty>::from_bytes(&nb), member) {
                    (Ok(v), Some(j)) => {
                        if (v as usize) != j {
                            $ctx.violation(format!("{}|wrong-item", $label), json!({"text": String::from_utf8_lossy(&nb), "got": v.to_str()}));
                        }
                    }
                    (Ok(v), None) => $ctx.violation(
                        format!("{}|accepts-non-member", $label),
                        json!({"input": bytes_to_json(&nb), "got": v.to_str(), "neighbour_of": s}),
                    ),
                    (Err(_), Some(_)) => $ctx.violation(format!("{}|rejects-member", $label), json!({"text": String::from_utf8_lossy(&nb)})),
                    (Err(_), None) => {}
                }
            }
        });
        for junk in [&b""[..], &[0xffu8, 0xfe][..], &vec![b'A'; 4096][..], &vec![b'-'; 70000][..], b"\0", b" "] {
            $tested.fetch_add(1, Ordering::Relaxed);
            match guarded(|| <$ty>::from_bytes(junk).is_ok()) {
                Ok(false) => {}
                Ok(true) => $ctx.violation(format!("{}|accepts-junk", $label), json!({"len": junk.len()})),
                Err(m) => $ctx.violation(format!("{}|panic", $label), json!({"len": junk.len(), "msg": m})),
            }
        }
        table.len()
    }};
}

pub fn run(tier: Tier) -> i32 {
    let ctx = Ctx::new("C18", tier);
    let tested = AtomicU64::new(0);
    let two = tier == Tier::Thorough;
    let n_el = sweep_names!(ctx, ElementName, "ElementName", tested, two);
    let n_at = sweep_names!(ctx, AttributeName, "AttributeName", tested, two);
    let n_en = sweep_names!(ctx, EnumItem, "EnumItem", tested, two);
    ctx.count("element_names", n_el as u64);
    ctx.count("attribute_names", n_at as u64);
    ctx.count("enum_items", n_en as u64);
    ctx.count("neighbour_strings", tested.load(Ordering::Relaxed));

    // versions: value <-> bit <-> file name
    let mut bits = 0u32;
    for v in VERSIONS {
        let val = v as u32;
        if val.count_ones() != 1 || bits & val != 0 {
            ctx.violation("version|not-a-distinct-single-bit", json!({"version": format!("{v:?}")}));
        }
        bits |= val;
        if v.filename() != crate::common::specgraph::xsd_name(v) {
            ctx.violation("version|filename-is-not-the-schema-file-name-of-the-version", json!({"version": format!("{v:?}"), "filename": v.filename()}));
        }
        if AutosarVersion::from_str(v.filename()).ok() != Some(v) {
            ctx.violation("version|filename-round-trip", json!({"version": format!("{v:?}")}));
        }
        if AutosarVersion::from_val(val) != Some(v) {
            ctx.violation("version|value-round-trip", json!({"version": format!("{v:?}")}));
        }
        for nb in neighbours(v.filename()) {
            if let Ok(s) = std::str::from_utf8(&nb) {
                if let Ok(v2) = AutosarVersion::from_str(s) {
                    if v2.filename() != s {
                        ctx.violation("version|parses-non-member", json!({"text": s}));
                    }
                }
            }
        }
    }
    let names: HashSet<&str> = VERSIONS.iter().map(|v| v.filename()).collect();
    if names.len() != 21 || AutosarVersion::LATEST != VERSIONS[20] {
        ctx.violation("version|filenames-not-distinct-or-latest-wrong", json!({}));
    }
    let mut vals = 0u64;
    for a in 0..32u32 {
        for b in a..32u32 {
            for c in [b, 31] {
                let val = (1u32 << a) | (1u32 << b) | (1u32 << c);
                vals += 1;
                let expect = VERSIONS.iter().copied().find(|v| *v as u32 == val);
                if AutosarVersion::from_val(val) != expect {
                    ctx.violation("version|from_val-wrong", json!({"value": val}));
                }
            }
        }
    }
    for val in [0u32, u32::MAX, 0x200000, 3, 0x100001] {
        vals += 1;
        if AutosarVersion::from_val(val).is_some() {
            ctx.violation("version|from_val-wrong", json!({"value": val}));
        }
    }
    ctx.count("version_values", vals);
    for v in VERSIONS {
        let mask = v as u32;
        if expand_version_mask(mask) != vec![v] || !v.compatible(mask) || v.compatible(!mask) {
            ctx.violation("version|mask-expansion", json!({"version": format!("{v:?}")}));
        }
    }
    if expand_version_mask(u32::MAX).len() != 21 {
        ctx.violation("version|mask-expansion", json!({"mask": "all"}));
    }

    // element types: every definition (hook) and every type reachable through the public graph
    let all_types: Vec<ElementType> = ElementType::verif_all().collect();
    let mut reachable: HashSet<ElementType> = HashSet::new();
    let mut queue = vec![ElementType::ROOT];
    reachable.insert(ElementType::ROOT);
    while let Some(t) = queue.pop() {
        for (_, st, _, _) in t.sub_element_spec_iter() {
            if reachable.insert(st) {
                queue.push(st);
            }
        }
    }
    ctx.count("element_definitions", all_types.len() as u64);
    ctx.count("reachable_types", reachable.len() as u64);
    let all_names: Vec<ElementName> = ElementName::verif_string_table().iter().filter_map(|s| ElementName::from_str(s).ok()).collect(); // a text that does not convert back is reported by the name sweep
    let all_attrs: Vec<AttributeName> = AttributeName::verif_string_table().iter().filter_map(|s| AttributeName::from_str(s).ok()).collect();
    let lookups = AtomicU64::new(0);
    let versions: Vec<AutosarVersion> = VERSIONS.to_vec();
    // group by datatype: lookups depend on the datatype only, but run them for every definition anyway (cheap)
    let mut by_dt: HashMap<u16, ElementType> = HashMap::new();
    for t in &all_types {
        by_dt.entry(t.verif_ids().2).or_insert(*t);
    }
    ctx.count("datatypes_in_use", by_dt.len() as u64);
    all_types.par_iter().for_each(|t| {
        let listing: Vec<(ElementName, ElementType, u32, u32)> = t.sub_element_spec_iter().collect();
        let listed_names: HashSet<ElementName> = listing.iter().map(|l| l.0).collect();
        let mut n = 0u64;
        for (name, _st, mask, named_mask) in &listing {
            for v in &versions {
                if !v.compatible(*mask) {
                    continue;
                }
                n += 1;
                match t.find_sub_element(*name, *v as u32) {
                    None => ctx.violation("lookup|listed-sub-element-not-found", json!({"type": format!("{t:?}"), "name": name.to_str(), "version": format!("{v:?}")})),
                    Some((ft, idx)) => {
                        if !listing.iter().any(|(n2, t2, m2, _)| n2 == name && *t2 == ft && v.compatible(*m2)) {
                            ctx.violation("lookup|type-not-listed-for-name-and-version", json!({"type": format!("{t:?}"), "name": name.to_str(), "version": format!("{v:?}")}));
                        }
                        match t.get_sub_element_version_mask(&idx) {
                            Some(m) if v.compatible(m) => {}
                            other => ctx.violation("lookup|version-mask-lacks-version", json!({"type": format!("{t:?}"), "name": name.to_str(), "version": format!("{v:?}"), "mask": format!("{other:?}")})),
                        }
                        if t.get_sub_element_multiplicity(&idx).is_none() {
                            ctx.violation("lookup|no-multiplicity-for-found-element", json!({"type": format!("{t:?}"), "name": name.to_str()}));
                        }
                        // the found type's is_named_in_version must agree with the listing's named mask for that entry
                        let listed_named = listing.iter().find(|(n2, t2, m2, _)| n2 == name && *t2 == ft && v.compatible(*m2)).map(|l| v.compatible(l.3));
                        if listed_named.is_some_and(|ln| ln != ft.is_named_in_version(*v)) {
                            ctx.violation("lookup|named-flag-differs", json!({"type": format!("{t:?}"), "name": name.to_str(), "version": format!("{v:?}")}));
                        }
                    }
                }
            }
            let _ = named_mask;
        }
        // names valid in a version but listed only for other versions must not be found in that version
        for (name, _st, _mask, _) in &listing {
            let union: u32 = listing.iter().filter(|l| l.0 == *name).map(|l| l.2).fold(0, |a, b| a | b);
            for v in &versions {
                if !v.compatible(union) {
                    n += 1;
                    if t.find_sub_element(*name, *v as u32).is_some() {
                        ctx.violation("lookup|found-outside-listed-versions", json!({"type": format!("{t:?}"), "name": name.to_str(), "version": format!("{v:?}")}));
                    }
                }
            }
        }
        // unlisted names: only for one representative per datatype (the lookup depends on the datatype alone)
        if by_dt.get(&t.verif_ids().2) == Some(t) {
            for name in &all_names {
                if !listed_names.contains(name) {
                    n += 1;
                    if t.find_sub_element(*name, u32::MAX).is_some() {
                        ctx.violation("lookup|unlisted-name-found", json!({"type": format!("{t:?}"), "name": name.to_str()}));
                    }
                }
            }
            let listed_attrs: Vec<AttributeName> = t.attribute_spec_iter().map(|a| a.0).collect();
            for a in &all_attrs {
                n += 1;
                let found = t.find_attribute_spec(*a);
                if listed_attrs.contains(a) != found.is_some() {
                    ctx.violation("lookup|attribute-listing-and-lookup-differ", json!({"type": format!("{t:?}"), "attribute": a.to_str()}));
                }
            }
        }
        for (an, spec, required) in t.attribute_spec_iter() {
            n += 1;
            match t.find_attribute_spec(an) {
                None => ctx.violation("lookup|listed-attribute-not-found", json!({"type": format!("{t:?}"), "attribute": an.to_str()})),
                Some(a) => {
                    if a.required != required || !std::ptr::eq(a.spec, spec) || a.version == 0 {
                        ctx.violation("lookup|attribute-spec-differs-from-listing", json!({"type": format!("{t:?}"), "attribute": an.to_str()}));
                    }
                }
            }
        }
        lookups.fetch_add(n, Ordering::Relaxed);
    });
    ctx.count("lookups", lookups.load(Ordering::Relaxed));
    if reachable.len() != all_types.len() {
        // not a violation of the property, but the other engines rely on it
        ctx.count("unreachable_types", (all_types.len() - reachable.len()) as u64);
    }

    // reference DEST proposals: all reference types x all named types
    let refs: Vec<ElementType> = all_types.iter().copied().filter(|t| t.is_ref()).collect();
    let named: Vec<ElementType> = all_types.iter().copied().filter(|t| t.is_named()).collect();
    // dedupe by datatype id (both functions depend on the datatype only); keep count of raw pairs too
    let dedupe = |v: &Vec<ElementType>| {
        let mut seen = HashSet::new();
        v.iter().copied().filter(|t| seen.insert(t.verif_ids().2)).collect::<Vec<_>>()
    };
    let refs_d = dedupe(&refs);
    let named_d = dedupe(&named);
    let pairs = AtomicU64::new(0);
    let proposals = AtomicU64::new(0);
    refs_d.par_iter().for_each(|r| {
        let dest_items: Vec<EnumItem> = match r.find_attribute_spec(AttributeName::Dest).map(|a| a.spec) {
            Some(CharacterDataSpec::Enum { items }) => items.iter().map(|(i, _)| *i).collect(),
            _ => vec![],
        };
        if dest_items.is_empty() {
            ctx.count("reference_types_without_DEST_enum", 1); // not demanded by the property; such a type never proposes
        }
        for t in &named_d {
            pairs.fetch_add(1, Ordering::Relaxed);
            if let Some(d) = r.reference_dest_value(t) {
                proposals.fetch_add(1, Ordering::Relaxed);
                if !t.verify_reference_dest(d) {
                    ctx.violation("dest|proposal-not-accepted-by-target", json!({"ref": format!("{r:?}"), "target": format!("{t:?}"), "dest": d.to_str()}));
                }
                if !dest_items.contains(&d) {
                    ctx.violation("dest|proposal-not-in-DEST-enum", json!({"ref": format!("{r:?}"), "target": format!("{t:?}"), "dest": d.to_str()}));
                }
            } else if let Some(d) = dest_items.iter().find(|d| t.verify_reference_dest(**d)) {
                // the lookup matches the listings: no proposal only if no item of the DEST enumeration is accepted by the target
                ctx.violation("dest|no-proposal-although-the-listings-share-a-value", json!({"ref": format!("{r:?}"), "target": format!("{t:?}"), "shared_value": d.to_str()}));
            }
        }
    });
    // a non-reference type or a non-identifiable target never gets a proposal
    for t in all_types.iter().take(400) {
        if !t.is_ref() && named_d.iter().take(50).any(|n| t.reference_dest_value(n).is_some()) {
            ctx.violation("dest|non-reference-proposes", json!({"type": format!("{t:?}")}));
        }
    }
    ctx.count("ref_types", refs.len() as u64);
    ctx.count("named_types", named.len() as u64);
    ctx.count("dest_pairs_distinct_datatypes", pairs.load(Ordering::Relaxed));
    ctx.count("dest_proposals", proposals.load(Ordering::Relaxed));

    let total = tested.load(Ordering::Relaxed) + lookups.load(Ordering::Relaxed) + pairs.load(Ordering::Relaxed) + vals + (n_el + n_at + n_en) as u64;
    ctx.eval(total);
    ctx.outcome(format!("proposals>0:{}", proposals.load(Ordering::Relaxed) > 0));
    ctx.outcome(format!("all-reachable:{}", reachable.len() == all_types.len()));
    ctx.sample(json!({"name": "AR-PACKAGE", "neighbours": neighbours("AR-PACKAGE").iter().take(8).map(|n| String::from_utf8_lossy(n).to_string()).collect::<Vec<_>>()}));
    ctx.sample(json!({"lookup": "ElementType::ROOT.find_sub_element(AR-PACKAGES, every version in its mask)"}));
    ctx.assume("the string tables exposed by the verif hook are the tables the lookups use (the hook returns the same constants)");
    let cov = json!({
        "distinct_nontrivial": (n_el + n_at + n_en) as u64 + lookups.load(Ordering::Relaxed),
        "rule": "every item of the three name tables (round trip, distinctness) and every one-edit (thorough: also every two-edit) neighbour/truncation/extension of its text; every version value/bit/file name and all u32 with <= 3 bits; for every element definition x version every listed sub-element and attribute, every unlisted name per datatype; every reference datatype x identifiable datatype. Non-trivial: member items and lookups of listed entries.",
        "exhaustive": true,
    });
    ctx.finish("exploration", cov)
}
