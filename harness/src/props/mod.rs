use crate::common::Tier;
pub mod c01;
pub mod c02;
pub mod c07;
pub mod c08;
pub mod c09;
pub mod c12;
pub mod c13;
pub mod c14;
pub mod c17;
pub mod conc;
pub mod hist;
pub mod c18;
pub mod c19;
pub mod c20;

pub fn run(id: &str, tier: Tier) -> i32 {
    match id {
        "C01" => c01::run(tier),
        "C02" => c02::run(tier),
        "C03" => hist::run("C03", tier),
        "C04" => hist::run("C04", tier),
        "C05" => hist::run("C05", tier),
        "C06" => hist::run("C06", tier),
        "C10" => hist::run("C10", tier),
        "C11" => hist::run("C11", tier),
        "C12" => hist::run("C12", tier),
        "C13" => hist::run("C13", tier),
        "C09" => c09::run(tier),
        "C15" => conc::run_prop("C15", tier),
        "C16" => conc::run_prop("C16", tier),
        "C14" => c14::run(tier),
        "C07" => c07::run(tier),
        "C08" => c08::run(tier),
        "C17" => c17::run(tier),
        "C18" => c18::run(tier),
        "C19" => c19::run(tier),
        "C20" => c20::run(tier),
        _ => {
            eprintln!("no check for {id}");
            2
        }
    }
}

pub fn child(args: &[String]) -> i32 {
    match args[0].as_str() {
        "c02-nest" => c02::child_nest(&args[1..]),
        "schedx-bench" => conc::bench(),
        k => {
            eprintln!("unknown child kind {k}");
            2
        }
    }
}

pub fn replay(id: &str, path: &str) -> i32 {
    let text = std::fs::read_to_string(path).expect("cannot read replay file");
    let v: serde_json::Value = serde_json::from_str(&text).expect("replay file is not JSON");
    match id {
        "C01" => c01::replay(&v),
        "C02" => c02::replay(&v),
        "C07" => c07::replay(&v),
        "C08" => c08::replay(&v),
        "C09" => c09::replay(&v),
        "C15" => conc::replay("C15", &v),
        "C16" => conc::replay("C16", &v),
        "C14" => c14::replay(&v),
        "C17" => c17::replay(&v),
        "C19" => c19::replay(&v),
        "C20" => c20::replay(&v),
        _ => {
            eprintln!("no replay for {id}");
            2
        }
    }
}
