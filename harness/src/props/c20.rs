//! C20 — typed values format and parse consistently; numeric interpretation is exact. Engine dfaconf
//! (member enumeration from the pattern DFAs) + value alphabets.
use crate::common::bignum::*;
use crate::common::regexdfa::Dfa;
use crate::common::specgraph::*;
use crate::common::tree::*;
use crate::common::*;
use autosar_data::*;
use autosar_data_specification::*;
use rayon::prelude::*;
use serde_json::json;
use std::collections::BTreeMap;
use std::sync::atomic::{AtomicU64, Ordering};

const INT_RE: &str = r"0|[\+\-]?[1-9][0-9]*|0[xX][0-9a-fA-F]+|0[bB][0-1]+|0[0-7]+";
const NUM_RE: &str = r"(0[xX][0-9a-fA-F]+)|(0[0-7]+)|(0[bB][0-1]+)|(([+\-]?[1-9][0-9]+(\.[0-9]+)?|[+\-]?[0-9](\.[0-9]+)?)([eE]([+\-]?)[0-9]+)?)|\.0|INF|-INF|NaN";
const BOOL_RE: &str = r"0|1|true|false";

/// every member of length <= max_len over `alpha`, streamed to `f` (parallel over the first two bytes); returns the count
fn for_members(dfa: &Dfa, alpha: &[u8], max_len: usize, f: &(dyn Fn(&str) + Sync)) -> u64 {
    let sink = dfa.sink();
    fn rec(dfa: &Dfa, sink: Option<u16>, alpha: &[u8], st: u16, buf: &mut Vec<u8>, left: usize, f: &(dyn Fn(&str) + Sync), n: &mut u64) {
        if dfa.accept[st as usize] {
            *n += 1;
            f(std::str::from_utf8(buf).unwrap());
        }
        if left == 0 {
            return;
        }
        for &b in alpha {
            let nx = dfa.trans[st as usize][b as usize];
            if Some(nx) == sink {
                continue;
            }
            buf.push(b);
            rec(dfa, sink, alpha, nx, buf, left - 1, f, n);
            buf.pop();
        }
    }
    // prefixes of length 0, 1 and 2 are handled here, everything below a 2-byte prefix in a worker
    let mut count = 0u64;
    let mut roots: Vec<(Vec<u8>, u16)> = vec![];
    let st0 = dfa.start;
    if dfa.accept[st0 as usize] {
        count += 1;
        f("");
    }
    if max_len >= 1 {
        for &a in alpha {
            let s1 = dfa.trans[st0 as usize][a as usize];
            if Some(s1) == sink {
                continue;
            }
            if dfa.accept[s1 as usize] {
                count += 1;
                f(std::str::from_utf8(&[a]).unwrap());
            }
            if max_len >= 2 {
                for &b in alpha {
                    let s2 = dfa.trans[s1 as usize][b as usize];
                    if Some(s2) != sink {
                        roots.push((vec![a, b], s2));
                    }
                }
            }
        }
    }
    let sub: u64 = roots
        .par_iter()
        .map(|(pre, st)| {
            let mut n = 0u64;
            let mut buf = pre.clone();
            rec(dfa, sink, alpha, *st, &mut buf, max_len - 2, f, &mut n);
            n
        })
        .sum();
    count + sub
}

fn members(dfa: &Dfa, alpha: &[u8], max_len: usize) -> Vec<String> {
    let out = std::sync::Mutex::new(vec![]);
    for_members(dfa, alpha, max_len, &|s| out.lock().unwrap().push(s.to_string()));
    out.into_inner().unwrap()
}

/// magnitude and sign of an integer-pattern member, by my own reading of the lexical forms
fn ref_int(s: &str) -> (bool, Big) {
    let (neg, body) = if let Some(r) = s.strip_prefix('-') {
        (true, r)
    } else if let Some(r) = s.strip_prefix('+') {
        (false, r)
    } else {
        (false, s)
    };
    let b = body.as_bytes();
    let mag = if body == "0" {
        Big::zero()
    } else if b.len() > 2 && b[0] == b'0' && (b[1] == b'x' || b[1] == b'X') {
        Big::from_digits(&b[2..], 16)
    } else if b.len() > 2 && b[0] == b'0' && (b[1] == b'b' || b[1] == b'B') {
        Big::from_digits(&b[2..], 2)
    } else if b[0] == b'0' {
        Big::from_digits(&b[1..], 8)
    } else {
        Big::from_digits(b, 10)
    };
    (neg, mag)
}

fn ref_float(s: &str) -> Option<f64> {
    match s {
        "INF" => return Some(f64::INFINITY),
        "-INF" => return Some(f64::NEG_INFINITY),
        "NaN" => return Some(f64::NAN),
        _ => {}
    }
    let b = s.as_bytes();
    let radix_form = b.len() > 1 && b[0] == b'0' && (matches!(b[1], b'x' | b'X' | b'b' | b'B') || b.iter().all(|c| c.is_ascii_digit()));
    if radix_form {
        let (_, mag) = ref_int(s);
        return Some(round_to_f64(&mag, 0, false));
    }
    decimal_to_f64(s)
}

fn same_f64(a: Option<f64>, b: Option<f64>) -> bool {
    match (a, b) {
        (None, None) => true,
        (Some(x), Some(y)) => (x.is_nan() && y.is_nan()) || x.to_bits() == y.to_bits(),
        _ => false,
    }
}

macro_rules! check_int_type {
    ($ctx:expr, $cd:expr, $text:expr, $neg:expr, $mag:expr, $t:ty) => {{
        // expected: the value if it fits $t, else None
        let expect: Option<$t> = match $mag.to_u128() {
            None => None,
            Some(m) => {
                if $neg {
                    if m <= (i128::MAX as u128) + 1 {
                        let v: i128 = if m == (i128::MAX as u128) + 1 { i128::MIN } else { -(m as i128) };
                        <$t>::try_from(v).ok()
                    } else {
                        None
                    }
                } else {
                    <$t>::try_from(m).ok()
                }
            }
        };
        let got: Option<$t> = $cd.parse_integer::<$t>();
        if got != expect {
            let class = match (got.is_some(), expect.is_some()) {
                (true, true) => "different-number",
                (true, false) => "returns-number-that-does-not-fit",
                (false, true) => "returns-nothing-for-fitting-value",
                _ => unreachable!(),
            };
            let form = lexical_form($text);
            $ctx.violation(
                format!("parse_integer|{}|{}|{}", class, form, stringify!($t)),
                json!({"kind": "parse_integer", "type": stringify!($t), "text": $text, "got": format!("{got:?}"), "expected": format!("{expect:?}")}),
            );
        }
    }};
}

fn lexical_form(s: &str) -> &'static str {
    let body = s.trim_start_matches(['+', '-']);
    let b = body.as_bytes();
    if body == "INF" || body == "NaN" {
        "special"
    } else if b.len() > 1 && b[0] == b'0' && (b[1] == b'x' || b[1] == b'X') {
        "hex"
    } else if b.len() > 1 && b[0] == b'0' && (b[1] == b'b' || b[1] == b'B') {
        "binary"
    } else if b.len() > 1 && b[0] == b'0' && b.iter().all(|c| c.is_ascii_digit()) {
        "octal"
    } else if body.contains(['e', 'E']) {
        "exponent"
    } else if body.contains('.') {
        "fraction"
    } else {
        "decimal"
    }
}

fn check_integer_text(ctx: &Ctx, text: &str) {
    let (neg, mag) = ref_int(text);
    let cd = CharacterData::String(text.to_string());
    check_int_type!(ctx, cd, text, neg, mag, u8);
    check_int_type!(ctx, cd, text, neg, mag, i8);
    check_int_type!(ctx, cd, text, neg, mag, u16);
    check_int_type!(ctx, cd, text, neg, mag, i16);
    check_int_type!(ctx, cd, text, neg, mag, u32);
    check_int_type!(ctx, cd, text, neg, mag, i32);
    check_int_type!(ctx, cd, text, neg, mag, u64);
    check_int_type!(ctx, cd, text, neg, mag, i64);
    check_int_type!(ctx, cd, text, neg, mag, usize);
    check_int_type!(ctx, cd, text, neg, mag, isize);
    check_int_type!(ctx, cd, text, neg, mag, u128);
    check_int_type!(ctx, cd, text, neg, mag, i128);
}

fn check_float_text(ctx: &Ctx, text: &str) {
    let expect = ref_float(text);
    // bind the reference arithmetic to std for the decimal forms (std documents correct rounding)
    if matches!(lexical_form(text), "decimal" | "fraction" | "exponent") {
        if let Ok(stdv) = text.parse::<f64>() {
            if !same_f64(Some(stdv), expect) {
                ctx.machinery_error(format!("reference rounding differs from std for {text:?}: {expect:?} vs {stdv:?}"));
            }
        }
    }
    let cd = CharacterData::String(text.to_string());
    let got = cd.parse_float();
    if !same_f64(got, expect) {
        let class = match (got.is_some(), expect.is_some()) {
            (true, true) => "different-number",
            (true, false) => "returns-number-for-non-number",
            (false, true) => "returns-nothing-for-valid-text",
            _ => unreachable!(),
        };
        let big = if matches!(lexical_form(text), "hex" | "binary" | "octal") && ref_int(text).1.bits() > 64 { "|above-u64" } else { "" };
        ctx.violation(
            format!("parse_float|{class}|{}{big}", lexical_form(text)),
            json!({"kind": "parse_float", "text": text, "got": format!("{got:?}"), "expected": format!("{expect:?}")}),
        );
    }
}

fn boundary_texts() -> (Vec<String>, Vec<String>) {
    let mut ints = vec![];
    for k in [7u32, 8, 15, 16, 31, 32, 63, 64, 127, 128] {
        let p = {
            let mut b = Big::from_u64(1);
            b.shl(k as usize);
            b
        };
        // 2^k - 1, 2^k, 2^k + 1 in every radix, with both signs for decimal
        for delta in [-1i32, 0, 1] {
            let mut v = p.clone();
            if delta == -1 {
                // subtract one: p is a power of two > 1
                let mut limbs = v.0.clone();
                for l in limbs.iter_mut() {
                    if *l == 0 {
                        *l = u32::MAX;
                    } else {
                        *l -= 1;
                        break;
                    }
                }
                v = Big(limbs);
                while v.0.last() == Some(&0) {
                    v.0.pop();
                }
            } else if delta == 1 {
                v.add_small(1);
            }
            let dec = big_to_string(&v, 10);
            ints.push(dec.clone());
            ints.push(format!("-{dec}"));
            ints.push(format!("+{dec}"));
            ints.push(format!("0x{}", big_to_string(&v, 16)));
            ints.push(format!("0X{}", big_to_string(&v, 16).to_uppercase()));
            ints.push(format!("0b{}", big_to_string(&v, 2)));
            ints.push(format!("0{}", big_to_string(&v, 8)));
            ints.push(format!("0x000000000000000000000000{}", big_to_string(&v, 16)));
        }
    }
    for d in ["18446744073709551615", "18446744073709551616", "9223372036854775807", "9223372036854775808", "99999999999999999999", "100000000000000000000", "340282366920938463463374607431768211455", "340282366920938463463374607431768211456"] {
        ints.push(d.to_string());
        ints.push(format!("-{d}"));
    }
    // rounding-critical values 2^(n-1) + t for every bit length n around and above the f64 mantissa: t just below / at / just
    // above the half ulp, the ulp and their neighbours, in every power-of-two radix (upper and lower case prefixes)
    let mut radix_floats: Vec<String> = vec![];
    for n in (54usize..=72).chain([100, 119, 120, 121, 122, 123, 124, 125, 126, 127, 128, 129, 130, 160, 200]) {
        let ulp_shift = n - 53; // bits below the mantissa
        let mut tails: Vec<Big> = vec![];
        let pow = |k: usize| {
            let mut b = Big::from_u64(1);
            b.shl(k);
            b
        };
        for base in [ulp_shift.saturating_sub(1), ulp_shift, ulp_shift + 1] {
            for delta in [-1i32, 0, 1] {
                let mut t = pow(base);
                if delta == 1 {
                    t.add_small(1);
                } else if delta == -1 {
                    t = big_minus_one(&t);
                }
                tails.push(t.clone());
                // plus one ulp so that the kept mantissa is odd (ties go the other way)
                let mut t2 = t;
                t2 = big_add(&t2, &pow(ulp_shift));
                tails.push(t2);
            }
        }
        for t in tails {
            for lead in [1u32, 2, 3, 5, 7] {
                // leading digit pattern: lead * 2^(n-3) (so hex/octal texts start with different digits), plus the tail
                let mut v = Big::from_u64(lead as u64);
                v.shl(n.saturating_sub(3));
                let v = big_add(&v, &t);
                radix_floats.push(format!("0x{}", big_to_string(&v, 16)));
                radix_floats.push(format!("0X{}", big_to_string(&v, 16).to_uppercase()));
                radix_floats.push(format!("0b{}", big_to_string(&v, 2)));
                radix_floats.push(format!("0B{}", big_to_string(&v, 2)));
                radix_floats.push(format!("0{}", big_to_string(&v, 8)));
                radix_floats.push(big_to_string(&v, 10));
            }
        }
    }
    radix_floats.sort();
    radix_floats.dedup();
    let mut floats: Vec<String> = ints.clone().into_iter().chain(radix_floats).filter(|s| !(s.len() > 2 && s.starts_with(['+', '-']) && s.as_bytes()[1] == b'0')).collect();
    for t in [
        "1e308", "1.7976931348623157e308", "1.7976931348623158e308", "1.7976931348623159e308", "1.8e308", "1e309", "-1e309", "4.9e-324", "5e-324", "2.4703282292062327e-324",
        "2.4703282292062328e-324", "2.5e-324", "1e-400", "2.2250738585072014e-308", "2.2250738585072011e-308", "9007199254740993", "9007199254740992", "9007199254740991",
        "0.1", "0.3", "1e23", "8.41e21", "1.0e+0", "-0.0", "0.0", "-0", "+0.5", ".0", "0e0", "1E5", "1e-5", "123456789012345678", "0.000001", "5e-1", "0x1p4",
    ] {
        floats.push(t.to_string());
    }
    (ints, floats)
}

fn big_minus_one(v: &Big) -> Big {
    let mut limbs = v.0.clone();
    for l in limbs.iter_mut() {
        if *l == 0 {
            *l = u32::MAX;
        } else {
            *l -= 1;
            break;
        }
    }
    while limbs.last() == Some(&0) {
        limbs.pop();
    }
    Big(limbs)
}

fn big_add(a: &Big, b: &Big) -> Big {
    let n = a.0.len().max(b.0.len());
    let mut out = Vec::with_capacity(n + 1);
    let mut carry = 0u64;
    for i in 0..n {
        let s = *a.0.get(i).unwrap_or(&0) as u64 + *b.0.get(i).unwrap_or(&0) as u64 + carry;
        out.push(s as u32);
        carry = s >> 32;
    }
    if carry > 0 {
        out.push(carry as u32);
    }
    Big(out)
}

fn big_to_string(v: &Big, radix: u32) -> String {
    if v.is_zero() {
        return "0".into();
    }
    let mut digits = vec![];
    let mut x = v.clone();
    while !x.is_zero() {
        let r = x.div_small(radix);
        digits.push(std::char::from_digit(r, radix).unwrap());
    }
    digits.iter().rev().collect()
}

struct Slots {
    /// (parent chain in the latest version, leaf name, leaf type) of a character element per kind
    elem_uint: Option<Vec<Step>>,
    elem_float: Option<Vec<Step>>,
    elem_string_pw: Option<Vec<Step>>,
    attr_float: Option<(Vec<Step>, AttributeName)>,
    attr_uint: Option<(Vec<Step>, AttributeName)>,
    attr_string: Option<(Vec<Step>, AttributeName)>,
}

fn find_slots(r: &Reach) -> Slots {
    let mut s = Slots { elem_uint: None, elem_float: None, elem_string_pw: None, attr_float: None, attr_uint: None, attr_string: None };
    for t in &r.order {
        let path = &r.path[t];
        if t.content_mode() == ContentMode::Characters {
            match t.chardata_spec() {
                Some(CharacterDataSpec::UnsignedInteger) if s.elem_uint.is_none() => s.elem_uint = Some(path.clone()),
                Some(CharacterDataSpec::Float) if s.elem_float.is_none() => s.elem_float = Some(path.clone()),
                Some(CharacterDataSpec::String { preserve_whitespace: true, max_length: None }) if s.elem_string_pw.is_none() => s.elem_string_pw = Some(path.clone()),
                _ => {}
            }
        }
        for (an, spec, _) in attribute_specs(*t) {
            if !t.find_attribute_spec(an).is_some_and(|a| r.version.compatible(a.version)) {
                continue;
            }
            match spec {
                CharacterDataSpec::Float if s.attr_float.is_none() => s.attr_float = Some((path.clone(), an)),
                CharacterDataSpec::UnsignedInteger if s.attr_uint.is_none() => s.attr_uint = Some((path.clone(), an)),
                CharacterDataSpec::String { max_length: None, .. } if s.attr_string.is_none() && *t != ElementType::ROOT => s.attr_string = Some((path.clone(), an)),
                _ => {}
            }
        }
    }
    s
}

/// build the element chain through the API; returns (model, file, leaf)
fn build_chain(path: &[Step], v: AutosarVersion) -> Result<(AutosarModel, ArxmlFile, Element), String> {
    let m = AutosarModel::new();
    let f = m.create_file("x.arxml", v).map_err(|e| e.to_string())?;
    let mut cur = m.root_element();
    let mut n = 0;
    for step in &path[1..] {
        let parent_type = cur.element_type();
        let (st, _) = parent_type.find_sub_element(step.name, v as u32).ok_or("step not found")?;
        cur = if st.is_named_in_version(v) {
            n += 1;
            cur.create_named_sub_element(step.name, &format!("n{n}")).map_err(|e| format!("{e}"))?
        } else {
            cur.create_sub_element(step.name).map_err(|e| format!("{e}"))?
        };
    }
    Ok((m, f, cur))
}

fn val_eq(a: &CharacterData, b: &CharacterData) -> bool {
    Val::from_cdata(a) == Val::from_cdata(b)
}

/// route B: set the value on a character element, serialize the file, load it again, compare the value
fn roundtrip_element(ctx: &Ctx, label: &str, path: &[Step], v: AutosarVersion, values: &[CharacterData], done: &AtomicU64) {
    values.par_chunks(256).for_each(|chunk| {
        let Ok((_m, f, leaf)) = build_chain(path, v) else {
            ctx.machinery_error(format!("cannot build chain for {label}"));
            return;
        };
        for val in chunk {
            done.fetch_add(1, Ordering::Relaxed);
            let r = guarded(|| -> Result<Option<CharacterData>, String> {
                leaf.set_character_data(val.clone()).map_err(|e| format!("set: {e}"))?;
                let text = f.serialize().map_err(|e| format!("serialize: {e}"))?;
                let m2 = AutosarModel::new();
                m2.load_buffer(text.as_bytes(), "y.arxml", true).map_err(|e| format!("load: {e}"))?;
                let last = m2.elements_dfs().last().map(|(_, e)| e).ok_or("empty")?;
                Ok(last.character_data())
            });
            let class = match &r {
                Err(_) => Some("panic".to_string()),
                Ok(Err(e)) => Some(format!("fails:{}", e.split(':').next().unwrap_or(""))),
                Ok(Ok(None)) => Some("value-lost".to_string()),
                Ok(Ok(Some(back))) => (!val_eq(back, val)).then(|| "value-differs".to_string()),
            };
            if let Some(class) = class {
                ctx.violation(format!("roundtrip-file|{label}|{class}|{}", value_class(val)), json!({"kind": "roundtrip-file", "slot": label, "value": format!("{val:?}"), "result": format!("{r:?}")}));
            }
        }
    });
}

/// route C: set the value as an attribute, serialize the file, load it again, compare the attribute value
/// (inside an attribute value the quote character matters, which it does not in element text)
fn roundtrip_attribute_file(ctx: &Ctx, label: &str, path: &[Step], attr: AttributeName, v: AutosarVersion, values: &[CharacterData], done: &AtomicU64) {
    values.par_chunks(256).for_each(|chunk| {
        let Ok((_m, f, leaf)) = build_chain(path, v) else {
            ctx.machinery_error(format!("cannot build chain for {label}"));
            return;
        };
        for val in chunk {
            done.fetch_add(1, Ordering::Relaxed);
            let r = guarded(|| -> Result<Option<CharacterData>, String> {
                leaf.set_attribute(attr, val.clone()).map_err(|e| format!("set: {e}"))?;
                let text = f.serialize().map_err(|e| format!("serialize: {e}"))?;
                let m2 = AutosarModel::new();
                m2.load_buffer(text.as_bytes(), "y.arxml", true).map_err(|e| format!("load: {e}"))?;
                let last = m2.elements_dfs().filter(|(_, e)| e.element_name() == leaf.element_name()).last().map(|(_, e)| e).ok_or("empty")?;
                Ok(last.attribute_value(attr))
            });
            let class = match &r {
                Err(_) => Some("panic".to_string()),
                Ok(Err(e)) if e.starts_with("set") => None, // a value the attribute does not take is not part of this route
                Ok(Err(e)) => Some(format!("fails:{}", e.split(':').next().unwrap_or(""))),
                Ok(Ok(None)) => Some("value-lost".to_string()),
                // outer whitespace of an attribute value of a non-preserving kind is insignificant (DESIGN section 8)
                Ok(Ok(Some(back))) => (back.to_string().trim_matches(|c: char| c.is_ascii_whitespace()) != val.to_string().trim_matches(|c: char| c.is_ascii_whitespace())).then(|| "value-differs".to_string()),
            };
            if let Some(class) = class {
                ctx.violation(format!("roundtrip-file|{label}|{class}|{}", value_class(val)), json!({"kind": "roundtrip-file", "slot": label, "value": format!("{val:?}"), "result": format!("{r:?}")}));
            }
        }
    });
}

/// route A: format with Display, parse through set_attribute_string, read the attribute back
fn roundtrip_attribute(ctx: &Ctx, label: &str, path: &[Step], attr: AttributeName, v: AutosarVersion, values: &[CharacterData], done: &AtomicU64) {
    values.par_chunks(1024).for_each(|chunk| {
        let Ok((_m, _f, leaf)) = build_chain(path, v) else {
            ctx.machinery_error(format!("cannot build chain for {label}"));
            return;
        };
        for val in chunk {
            done.fetch_add(1, Ordering::Relaxed);
            let text = val.to_string();
            let r = guarded(|| leaf.set_attribute_string(attr, &text).map(|_| leaf.attribute_value(attr)));
            let class = match &r {
                Err(_) => Some("panic"),
                Ok(Err(_)) => Some("text-rejected"),
                Ok(Ok(None)) => Some("value-lost"),
                Ok(Ok(Some(back))) => (!val_eq(back, val)).then_some("value-differs"),
            };
            if let Some(class) = class {
                ctx.violation(format!("roundtrip-api|{label}|{class}|{}", value_class(val)), json!({"kind": "roundtrip-api", "slot": label, "value": format!("{val:?}"), "text": text, "result": format!("{r:?}")}));
            }
        }
    });
}

fn value_class(v: &CharacterData) -> String {
    match v {
        CharacterData::Float(f) => {
            if f.is_nan() {
                "nan".into()
            } else if f.is_infinite() {
                "inf".into()
            } else if *f == 0.0 {
                "zero".into()
            } else if f.is_subnormal() {
                "subnormal".into()
            } else {
                "normal".into()
            }
        }
        CharacterData::String(s) => {
            let mut cls: Vec<&str> = vec![];
            if s.is_empty() {
                cls.push("empty");
            }
            if s.starts_with(char::is_whitespace) || s.ends_with(char::is_whitespace) {
                cls.push("outer-ws");
            }
            if s.contains(['&', '<', '>', '"', '\'']) {
                cls.push("escapable");
            }
            if s.contains(['\n', '\t', '\r']) {
                cls.push("control-ws");
            }
            cls.join("+")
        }
        CharacterData::UnsignedInteger(_) => "uint".into(),
        CharacterData::Enum(_) => "enum".into(),
    }
}

pub fn run(tier: Tier) -> i32 {
    let ctx = Ctx::new("C20", tier);
    let total = AtomicU64::new(0);
    // ---- numeric interpretation on every member of the lexical patterns up to a length
    let alpha: Vec<u8> = b"01789afFxXbB+-.eEINa".to_vec();
    let mut alpha_dedup = vec![];
    for b in alpha {
        if !alpha_dedup.contains(&b) {
            alpha_dedup.push(b);
        }
    }
    let max_len = tier.pick(8usize, 10usize);
    let int_dfa = Dfa::from_regex(INT_RE).unwrap();
    let num_dfa = Dfa::from_regex(NUM_RE).unwrap();
    let bool_dfa = Dfa::from_regex(BOOL_RE).unwrap();
    let mut alpha_bool = alpha_dedup.clone();
    alpha_bool.extend_from_slice(b"trusl");
    let bool_members = members(&bool_dfa, &alpha_bool, 5);
    // the patterns must be the published ones
    let pairs = super::c19::collect_pairs(None);
    for re in [INT_RE, NUM_RE, BOOL_RE] {
        if !pairs.iter().any(|p| p.regex == re) {
            ctx.machinery_error(format!("pattern {re:?} is no longer published by the specification"));
        }
    }
    let (b_ints, b_floats) = boundary_texts();
    for t in &b_ints {
        if !int_dfa.accepts(t.as_bytes()) && !t.starts_with("0x0000") {
            ctx.machinery_error(format!("boundary text {t} is not a member of the integer pattern"));
        }
    }
    let n_int = for_members(&int_dfa, &alpha_dedup, max_len, &|t| {
        check_integer_text(&ctx, t);
        total.fetch_add(12, Ordering::Relaxed);
    });
    let n_num = for_members(&num_dfa, &alpha_dedup, max_len, &|t| {
        check_float_text(&ctx, t);
        total.fetch_add(1, Ordering::Relaxed);
    });
    ctx.count("integer_members", n_int);
    ctx.count("numerical_members", n_num);
    ctx.count("boolean_members", bool_members.len() as u64);
    ctx.count("boundary_texts", (b_ints.len() + b_floats.len()) as u64);
    b_ints.par_iter().for_each(|t| {
        if int_dfa.accepts(t.as_bytes()) {
            check_integer_text(&ctx, t);
            total.fetch_add(12, Ordering::Relaxed);
        }
    });
    b_floats.par_iter().for_each(|t| {
        if num_dfa.accepts(t.as_bytes()) {
            check_float_text(&ctx, t);
            total.fetch_add(1, Ordering::Relaxed);
        }
    });
    for t in &bool_members {
        let expect = match t.as_str() {
            "true" | "1" => Some(true),
            "false" | "0" => Some(false),
            _ => None,
        };
        total.fetch_add(1, Ordering::Relaxed);
        let got = CharacterData::String(t.clone()).parse_bool();
        if got != expect {
            ctx.violation(format!("parse_bool|{t}"), json!({"kind": "parse_bool", "text": t, "got": format!("{got:?}")}));
        }
    }
    if bool_members.len() != 4 {
        ctx.machinery_error("boolean pattern should have exactly 4 members");
    }
    // typed values interpret as themselves
    for v in [0u64, 1, 255, 256, u32::MAX as u64, u64::MAX, 1 << 63] {
        let cd = CharacterData::UnsignedInteger(v);
        total.fetch_add(3, Ordering::Relaxed);
        if cd.parse_integer::<u64>() != Some(v) || cd.parse_integer::<u8>() != u8::try_from(v).ok() || cd.parse_float().map(f64::to_bits) != Some((v as f64).to_bits()) {
            ctx.violation("parse|typed-uint", json!({"value": v}));
        }
    }

    // ---- format -> parse round trips
    let v_latest = AutosarVersion::LATEST;
    let r = reach(v_latest);
    let slots = find_slots(&r);
    let mut floats: Vec<CharacterData> = vec![];
    let mantissas: [u64; 12] = [0, 1, 2, 3, 0xF_FFFF_FFFF_FFFF, 0x8_0000_0000_0000, 0x5_5555_5555_5555, 0xA_AAAA_AAAA_AAAA, 0x1_0000_0000, 0x7_FFFF_FFFF_FFFF, 0x8_0000_0000_0001, 0xF_FFFF_FFFF_FFFE];
    let exp_step = tier.pick(1u64, 1u64);
    for sign in [0u64, 1] {
        let mut exp = 0u64;
        while exp < 2048 {
            for man in mantissas {
                floats.push(CharacterData::Float(f64::from_bits((sign << 63) | (exp << 52) | man)));
            }
            exp += exp_step;
        }
    }
    let mut uints: Vec<CharacterData> = vec![];
    for k in 0..64u32 {
        let p = 1u64 << k;
        for d in [p.wrapping_sub(1), p, p.wrapping_add(1), p | (p >> 1), !p] {
            uints.push(CharacterData::UnsignedInteger(d));
        }
    }
    for d in [0u64, 9, 10, 99, 100, 999999999, 1000000000, 9999999999999999999, 10000000000000000000, u64::MAX] {
        uints.push(CharacterData::UnsignedInteger(d));
    }
    let salpha: Vec<char> = vec!['a', '1', ' ', '&', '<', '>', '\'', '"', 'é', ';', '\n', '\t', '#', 'x'];
    let slen = tier.pick(3usize, 4usize);
    let mut strings: Vec<CharacterData> = vec![];
    {
        fn rec(salpha: &[char], buf: &mut String, left: usize, out: &mut Vec<CharacterData>) {
            out.push(CharacterData::String(buf.clone()));
            if left == 0 {
                return;
            }
            for c in salpha {
                buf.push(*c);
                rec(salpha, buf, left - 1, out);
                buf.pop();
            }
        }
        rec(&salpha, &mut String::new(), slen, &mut strings);
    }
    for s in ["&amp;", "&#65;", "&lt;x&gt;", "a&amp;amp;b", "]]>", "<!--", "\u{feff}x", "x\u{0}y"] {
        strings.push(CharacterData::String(s.to_string()));
    }
    let strings_api = strings.clone();
    // file route: a whitespace-only run between two tags is insignificant everywhere (DESIGN section 8); empty strings serialize as an empty element whose character data is absent, which is "no value", not a
    // different value; they are left out of the file route
    let strings_file: Vec<CharacterData> = strings.into_iter().filter(|s| !matches!(s, CharacterData::String(t) if t.trim_matches(|c: char| c.is_ascii_whitespace()).is_empty() || t.contains('\u{0}'))).collect();
    let done = AtomicU64::new(0);
    let mut routes = BTreeMap::new();
    if let Some(p) = &slots.elem_float {
        roundtrip_element(&ctx, "element-float", p, v_latest, &floats, &done);
        routes.insert("element-float", p.last().unwrap().name.to_str());
    }
    if let Some(p) = &slots.elem_uint {
        roundtrip_element(&ctx, "element-uint", p, v_latest, &uints, &done);
        routes.insert("element-uint", p.last().unwrap().name.to_str());
    }
    if let Some(p) = &slots.elem_string_pw {
        roundtrip_element(&ctx, "element-string-preserving", p, v_latest, &strings_file, &done);
        routes.insert("element-string-preserving", p.last().unwrap().name.to_str());
    }
    if let Some((p, a)) = &slots.attr_float {
        roundtrip_attribute(&ctx, "attribute-float", p, *a, v_latest, &floats, &done);
        routes.insert("attribute-float", a.to_str());
    }
    if let Some((p, a)) = &slots.attr_uint {
        roundtrip_attribute(&ctx, "attribute-uint", p, *a, v_latest, &uints, &done);
        routes.insert("attribute-uint", a.to_str());
    }
    if let Some((p, a)) = &slots.attr_string {
        roundtrip_attribute(&ctx, "attribute-string", p, *a, v_latest, &strings_api, &done);
        routes.insert("attribute-string", a.to_str());
        // the file route for attribute values: not-empty strings without NUL (an empty attribute value is written and read as such)
        let strings_attr_file: Vec<CharacterData> = strings_api.iter().filter(|s| !matches!(s, CharacterData::String(t) if t.contains('\u{0}') || t.trim_matches(|c: char| c.is_ascii_whitespace()).is_empty())).cloned().collect();
        roundtrip_attribute_file(&ctx, "attribute-string-through-file", p, *a, v_latest, &strings_attr_file, &done);
    }
    // ---- the lexical forms in slots of their own value type: a character element whose specification is the integer /
    // numerical / boolean pattern takes every member (set_character_data, which validates with the published pattern),
    // returns it unchanged, interprets it as the reference does, and a file holding it loads strictly with the same value
    let typed_len = tier.pick(5usize, 6usize);
    for (label, re, dfa, alpha) in [("integer-pattern", INT_RE, &int_dfa, &alpha_dedup), ("numerical-pattern", NUM_RE, &num_dfa, &alpha_dedup), ("boolean-pattern", BOOL_RE, &bool_dfa, &alpha_bool)] {
        let slot = r.order.iter().find(|t| t.content_mode() == ContentMode::Characters && matches!(t.chardata_spec(), Some(CharacterDataSpec::Pattern { regex, .. }) if *regex == re)).map(|t| r.path[t].clone());
        let Some(path) = slot else {
            ctx.machinery_error(format!("no character element with the {label} found"));
            continue;
        };
        routes.insert(label, path.last().unwrap().name.to_str());
        let mut texts = members(dfa, alpha, typed_len);
        match label {
            "integer-pattern" => texts.extend(b_ints.iter().filter(|t| int_dfa.accepts(t.as_bytes())).cloned()),
            "numerical-pattern" => texts.extend(b_floats.iter().filter(|t| num_dfa.accepts(t.as_bytes())).cloned()),
            _ => {}
        }
        ctx.count(&format!("typed_slot_texts_{label}"), texts.len() as u64);
        texts.par_chunks(512).for_each(|chunk| {
            let Ok((_m, f, leaf)) = build_chain(&path, v_latest) else {
                ctx.machinery_error(format!("cannot build chain for {label}"));
                return;
            };
            for (i, text) in chunk.iter().enumerate() {
                done.fetch_add(1, Ordering::Relaxed);
                let w = |extra: serde_json::Value| json!({"kind": "typed-slot", "slot": label, "element": path.last().unwrap().name.to_str(), "text": text, "detail": extra});
                let form = lexical_form(text);
                match guarded(|| leaf.set_character_data(CharacterData::String(text.clone())).map(|_| leaf.character_data())) {
                    Err(msg) => ctx.violation(format!("typed-slot|{label}|panic|{form}"), w(json!(msg))),
                    Ok(Err(e)) => ctx.violation(format!("typed-slot|{label}|member-of-the-pattern-rejected|{form}"), w(json!(e.to_string()))),
                    Ok(Ok(back)) => {
                        if back != Some(CharacterData::String(text.clone())) {
                            ctx.violation(format!("typed-slot|{label}|value-differs|{form}"), w(json!(format!("{back:?}"))));
                        } else if let Some(back) = back {
                            let ok = match label {
                                "integer-pattern" => {
                                    let (neg, mag) = ref_int(text);
                                    let expect: Option<i128> = mag.to_u128().and_then(|m| if neg { 0i128.checked_sub_unsigned(m) } else { i128::try_from(m).ok() });
                                    back.parse_integer::<i128>() == expect
                                }
                                "numerical-pattern" => same_f64(back.parse_float(), ref_float(text)),
                                _ => back.parse_bool() == Some(text == "true" || text == "1"),
                            };
                            if !ok {
                                ctx.violation(format!("typed-slot|{label}|interpretation-differs-from-reference|{form}"), w(json!({})));
                            }
                        }
                    }
                }
                // through a file: every 16th text of the chunk and everything of at most 3 characters
                if i % 16 == 0 || text.len() <= 3 {
                    let r2 = guarded(|| -> Result<Option<CharacterData>, String> {
                        let xml = f.serialize().map_err(|e| format!("serialize: {e}"))?;
                        let m2 = AutosarModel::new();
                        m2.load_buffer(xml.as_bytes(), "y.arxml", true).map_err(|e| format!("load: {e}"))?;
                        let last = m2.elements_dfs().last().map(|(_, e)| e).ok_or("empty")?;
                        Ok(last.character_data())
                    });
                    if leaf.character_data() == Some(CharacterData::String(text.clone())) && !matches!(&r2, Ok(Ok(Some(CharacterData::String(t)))) if t == text) {
                        ctx.violation(format!("typed-slot|{label}|file-with-member-does-not-load-to-the-same-value|{form}"), w(json!(format!("{r2:?}"))));
                    }
                }
            }
        });
    }
    for needed in ["element-float", "element-uint", "element-string-preserving", "attribute-string", "integer-pattern", "numerical-pattern", "boolean-pattern"] {
        if !routes.contains_key(needed) {
            ctx.machinery_error(format!("no slot found for route {needed}"));
        }
    }
    ctx.count("roundtrips", done.load(Ordering::Relaxed));

    // ---- enumeration items: every enum spec x item x version, through set_character_data/set_attribute + Display + parse
    let enum_done = AtomicU64::new(0);
    let versions: Vec<AutosarVersion> = if tier == Tier::Quick { vec![VERSIONS[0], VERSIONS[8], VERSIONS[17], VERSIONS[20]] } else { VERSIONS.to_vec() };
    versions.par_iter().for_each(|v| {
        let r = reach(*v);
        let mut seen_specs: Vec<*const CharacterDataSpec> = vec![];
        for t in &r.order {
            for (an, spec, _) in attribute_specs(*t) {
                let CharacterDataSpec::Enum { items } = spec else { continue };
                if seen_specs.contains(&(spec as *const _)) || *t == ElementType::ROOT {
                    continue;
                }
                if !t.find_attribute_spec(an).is_some_and(|a| v.compatible(a.version)) {
                    continue;
                }
                seen_specs.push(spec as *const _);
                let Ok((_m, _f, leaf)) = build_chain(&r.path[t], *v) else { continue };
                for (item, mask) in items.iter() {
                    enum_done.fetch_add(1, Ordering::Relaxed);
                    let permitted = v.compatible(*mask);
                    let res = leaf.set_attribute_string(an, item.to_str());
                    let back = leaf.attribute_value(an);
                    let ok = if permitted { res.is_ok() && back == Some(CharacterData::Enum(*item)) } else { res.is_err() };
                    if !ok {
                        ctx.violation(
                            format!("enum-roundtrip|attribute|{}", if permitted { "permitted-item-not-parsed" } else { "item-outside-version-parsed" }),
                            json!({"kind": "enum", "attribute": an.to_str(), "item": item.to_str(), "version": format!("{v:?}"), "result": format!("{res:?}")}),
                        );
                    }
                    let _ = leaf.remove_attribute(an);
                }
            }
        }
    });
    ctx.count("enum_item_roundtrips", enum_done.load(Ordering::Relaxed));

    let evals = total.load(Ordering::Relaxed) + done.load(Ordering::Relaxed) + enum_done.load(Ordering::Relaxed);
    ctx.eval(evals);
    ctx.sample(json!({"parse_integer": "0x7f", "types": "u8 i8 u16 i16 u32 i32 u64 i64 usize isize u128 i128"}));
    ctx.sample(json!({"parse_float": "1.7976931348623159e308"}));
    ctx.sample(json!({"roundtrip": "Float(bits=0x0000000000000001) -> text -> load -> Float"}));
    ctx.outcome(format!("routes:{}", routes.len()));
    ctx.assume("texts judged: members of the published integer (regex 13), numerical (regex 16) and boolean (regex 6) patterns");
    ctx.assume("strings in the file route use a whitespace-preserving character element; empty and whitespace-only strings are not values there (DESIGN section 8)");
    let cov = json!({
        "states": (int_dfa.n() + num_dfa.n() + bool_dfa.n()) as u64,
        "transitions": n_int + n_num + bool_members.len() as u64,
        "traces_validated_against_impl": evals,
        "member_length_bound": max_len,
        "string_length_bound": slen,
        "routes": routes,
        "exhaustive": true,
    });
    ctx.finish("model_checking", cov)
}

pub fn replay(v: &serde_json::Value) -> i32 {
    let w = &v["witness"];
    let ctx = Ctx::for_replay("C20", Tier::Quick);
    match w["kind"].as_str() {
        Some("parse_integer") => check_integer_text(&ctx, w["text"].as_str().unwrap()),
        Some("parse_float") => check_float_text(&ctx, w["text"].as_str().unwrap()),
        _ => {
            println!("replay of this witness kind re-runs the quick check");
            return run(Tier::Quick);
        }
    }
    let bad = ctx.has_violation_key(v["key"].as_str().unwrap_or(""));
    println!("witness {} reproduces: {bad}", w["text"]);
    bad as i32
}
