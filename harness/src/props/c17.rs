//! C17 — the version-compatibility check is exact and changing a file's version is safe. Engine specwalk.
use super::c01::{load_classified, Loaded};
use crate::common::specgraph::*;
use crate::common::tree::*;
use crate::common::*;
use autosar_data::*;
use autosar_data_specification::*;
use rayon::prelude::*;
use serde_json::{json, Value};
use std::sync::atomic::{AtomicU64, Ordering};

fn compat_kinds(errs: &[CompatibilityError]) -> Vec<String> {
    errs.iter()
        .map(|e| match e {
            CompatibilityError::IncompatibleElement { element, .. } => format!("IncompatibleElement({})", element.element_name()),
            CompatibilityError::IncompatibleAttribute { attribute, .. } => format!("IncompatibleAttribute({attribute})"),
            CompatibilityError::IncompatibleAttributeValue { attribute, attribute_value, .. } => format!("IncompatibleAttributeValue({attribute}={attribute_value})"),
        })
        .collect()
}
fn compat_class(errs: &[CompatibilityError]) -> &'static str {
    match errs.first() {
        None => "none",
        Some(CompatibilityError::IncompatibleElement { .. }) => "IncompatibleElement",
        Some(CompatibilityError::IncompatibleAttribute { .. }) => "IncompatibleAttribute",
        Some(CompatibilityError::IncompatibleAttributeValue { .. }) => "IncompatibleAttributeValue",
    }
}

struct Counters {
    docs: AtomicU64,
    checks: AtomicU64,
    compatible: AtomicU64,
    set_version_ok: AtomicU64,
}

/// all oracles for one valid document of version v1 against every target version
fn check_doc(ctx: &Ctx, cnt: &Counters, what: &str, tree: &Node, v1: AutosarVersion, targets: &[AutosarVersion], two_file: bool, depth_of_parent: usize) {
    let o = PrintOpts { layout: Layout::Compact, ..PrintOpts::default() };
    let text1 = print_document(tree, v1, &o);
    let l1: Loaded = match load_classified(text1.as_bytes(), true) {
        Ok(Ok(l)) => l,
        Ok(Err(e)) => {
            // the base document must be valid in its own version; if not, the generator is wrong
            ctx.machinery_error(format!("base document invalid in {v1:?}: {} / {}", e.text, &text1[text1.len().saturating_sub(200)..]));
            return;
        }
        Err(p) => {
            ctx.violation(format!("panic|load|{}", last_panic_loc()), json!({"kind": "doc", "text": text1, "msg": p}));
            return;
        }
    };
    cnt.docs.fetch_add(1, Ordering::Relaxed);
    if two_file {
        let other = format!(
            "<?xml version=\"1.0\" encoding=\"utf-8\"?><AUTOSAR {}><AR-PACKAGES><AR-PACKAGE><SHORT-NAME>zz_other</SHORT-NAME><CATEGORY>c</CATEGORY></AR-PACKAGE></AR-PACKAGES></AUTOSAR>",
            header_attrs(v1)
        );
        match guarded(|| l1.model.load_buffer(other.as_bytes(), "other.arxml", true).map(|(f, _)| f)) {
            Ok(Ok(fb)) => {
                for v2 in targets {
                    cnt.checks.fetch_add(1, Ordering::Relaxed);
                    match guarded(|| fb.check_version_compatibility(*v2)) {
                        Ok((errs, mask)) => {
                            if !errs.is_empty() || !v2.compatible(mask) {
                                ctx.violation(
                                    format!("two-files|content-of-other-file-counted|{}", compat_class(&errs)),
                                    json!({"kind": "two-file", "file_a": text1, "file_b": other, "target": format!("{v2:?}"), "reported_for_b": compat_kinds(&errs), "mask_for_b": mask}),
                                );
                            }
                        }
                        Err(p) => ctx.violation(format!("panic|check_version_compatibility|{}", last_panic_loc()), json!({"kind": "two-file", "file_a": text1, "msg": p})),
                    }
                }
            }
            Ok(Err(e)) => {
                // the root element itself may carry content that cannot be merged (e.g. ADMIN-DATA); not a C17 matter
                let _ = e;
                ctx.count("two_file_merge_refused", 1);
            }
            Err(p) => ctx.violation(format!("panic|load-second-file|{}", last_panic_loc()), json!({"kind": "two-file", "file_a": text1, "msg": p})),
        }
    }
    if two_file && depth_of_parent >= 2 {
        // second two-file variant: the other file is a "twin" that contains the same chain of elements but not the
        // deepest child, so that the child is restricted to the first file below a parent that may not be splittable.
        // The twin's own compatibility must not depend on what only the first file contains.
        let mut twin = tree.clone();
        fn drop_deepest(n: &mut Node, depth: usize) {
            if depth == 0 {
                if let Some(pos) = n.items.iter().rposition(|i| matches!(i, Item::Node(_))) {
                    n.items.remove(pos);
                }
                return;
            }
            if let Some(Item::Node(c)) = n.items.iter_mut().rev().find(|i| matches!(i, Item::Node(_))) {
                drop_deepest(c, depth - 1);
            }
        }
        drop_deepest(&mut twin, depth_of_parent);
        let text_twin = print_document(&twin, v1, &o);
        let m = AutosarModel::new();
        let loaded = guarded(|| {
            m.load_buffer(text1.as_bytes(), "x.arxml", true)?;
            m.load_buffer(text_twin.as_bytes(), "twin.arxml", true).map(|(f, _)| f)
        });
        match loaded {
            Ok(Ok(ft)) => {
                for v2 in targets {
                    cnt.checks.fetch_add(1, Ordering::Relaxed);
                    let twin_v2 = print_document(&twin, *v2, &o);
                    let reference_ok = matches!(load_classified(twin_v2.as_bytes(), true), Ok(Ok(_)));
                    match guarded(|| ft.check_version_compatibility(*v2)) {
                        Ok((errs, mask)) => {
                            if errs.is_empty() != reference_ok || v2.compatible(mask) != reference_ok {
                                ctx.violation(
                                    format!("two-files|twin-file-judged-by-content-of-the-other-file|{}", compat_class(&errs)),
                                    json!({"kind": "two-file", "file_a": text1, "file_b": text_twin, "target": format!("{v2:?}"), "reported_for_b": compat_kinds(&errs), "mask_for_b": mask, "b_alone_loads_as_target": reference_ok}),
                                );
                            }
                        }
                        Err(p) => ctx.violation(format!("panic|check_version_compatibility|{}", last_panic_loc()), json!({"kind": "two-file", "file_a": text1, "file_b": text_twin, "msg": p})),
                    }
                }
            }
            Ok(Err(_)) => ctx.count("twin_merge_refused", 1),
            Err(p) => ctx.violation(format!("panic|load-twin-file|{}", last_panic_loc()), json!({"kind": "two-file", "file_a": text1, "msg": p})),
        }
    }
    let before = snapshot_model(&l1.model);
    for v2 in targets {
        cnt.checks.fetch_add(1, Ordering::Relaxed);
        let text2 = print_document(tree, *v2, &o);
        let reference = match load_classified(text2.as_bytes(), true) {
            Ok(r) => r,
            Err(_) => continue, // a loader panic is C02/C12's business
        };
        let w = |extra: Value| json!({"kind": "compat", "what": what, "source_version": format!("{v1:?}"), "target_version": format!("{v2:?}"), "text_in_source_version": text1, "details": extra});
        // the target equal to the file's own version, for a file whose content is NOT valid in its own version: the text
        // relabelled as v2 does not pass strict validation, so it is loaded leniently; check, mask and set_version for
        // v2 (its own version) must say "incompatible", and for v1 (where the content comes from) "compatible"
        if reference.is_err() && *v2 != v1 {
            if let Ok(Ok(lenient)) = load_classified(text2.as_bytes(), false) {
                cnt.checks.fetch_add(1, Ordering::Relaxed);
                let wl = |extra: Value| json!({"kind": "compat-own-version", "what": what, "content_from_version": format!("{v1:?}"), "file_labelled_and_loaded_leniently_as": format!("{v2:?}"), "text": text2, "details": extra});
                match guarded(|| (lenient.file.check_version_compatibility(*v2), lenient.file.set_version(*v2).is_ok(), lenient.file.version())) {
                    Ok(((errs_own, mask_own), sv_ok, ver_after)) => {
                        // what the lenient load dropped (with a warning) is not part of the file any more: judge the file as loaded
                        let as_loaded_ok = guarded(|| lenient.file.serialize()).ok().and_then(|r| r.ok()).is_some_and(|t| matches!(load_classified(t.as_bytes(), true), Ok(Ok(_))));
                        if errs_own.is_empty() != as_loaded_ok {
                            ctx.violation(format!("own-version|check-disagrees-with-strict-validation|{}", compat_class(&errs_own)), wl(json!({"strict_load_of_the_file_as_loaded": as_loaded_ok, "reported": compat_kinds(&errs_own)})));
                        }
                        if v2.compatible(mask_own) != as_loaded_ok {
                            ctx.violation("own-version|mask-disagrees-with-strict-validation", wl(json!({"strict_load_of_the_file_as_loaded": as_loaded_ok, "mask": mask_own})));
                        }
                        if sv_ok != errs_own.is_empty() {
                            ctx.violation("own-version|set_version-disagrees-with-check", wl(json!({"set_version_ok": sv_ok, "reported": compat_kinds(&errs_own)})));
                        }
                        if ver_after != *v2 {
                            ctx.violation("own-version|set_version-changed-the-version", wl(json!({"version_after": format!("{ver_after:?}")})));
                        }
                    }
                    Err(p) => ctx.violation(format!("panic|own-version|{}", last_panic_loc()), wl(json!({"msg": p}))),
                }
            }
        }
        let (errs, mask) = match guarded(|| l1.file.check_version_compatibility(*v2)) {
            Ok(x) => x,
            Err(p) => {
                ctx.violation(format!("panic|check_version_compatibility|{}", last_panic_loc()), w(json!({"msg": p})));
                continue;
            }
        };
        let compatible = errs.is_empty();
        if compatible {
            cnt.compatible.fetch_add(1, Ordering::Relaxed);
        }
        match (&reference, compatible) {
            (Ok(_), true) | (Err(_), false) => {}
            (Err(e), true) => ctx.violation(format!("check-misses-incompatibility|{}", e.class), w(json!({"strict_load_as_target": e.text}))),
            (Ok(_), false) => ctx.violation(format!("check-reports-incompatibility-for-loadable-content|{}", compat_class(&errs)), w(json!({"reported": compat_kinds(&errs)}))),
        }
        match (&reference, v2.compatible(mask)) {
            (Ok(_), true) | (Err(_), false) => {}
            (Err(e), true) => ctx.violation(format!("mask-contains-unloadable-target|{}", e.class), w(json!({"mask": mask, "strict_load_as_target": e.text}))),
            (Ok(_), false) => ctx.violation("mask-lacks-loadable-target", w(json!({"mask": mask}))),
        }
        // set_version
        let sv = match guarded(|| l1.file.set_version(*v2)) {
            Ok(r) => r,
            Err(p) => {
                ctx.violation(format!("panic|set_version|{}", last_panic_loc()), w(json!({"msg": p})));
                continue;
            }
        };
        if sv.is_ok() != compatible {
            ctx.violation("set_version-disagrees-with-check", w(json!({"set_version_ok": sv.is_ok(), "reported": compat_kinds(&errs)})));
        }
        if sv.is_ok() {
            cnt.set_version_ok.fetch_add(1, Ordering::Relaxed);
            if l1.file.version() != *v2 {
                ctx.violation("set_version-ok-but-version-unchanged", w(json!({})));
            }
            let after = snapshot_model(&l1.model);
            if let Some(d) = after.diff(&before, "") {
                ctx.violation("set_version-alters-content", w(json!({"diff": d})));
            }
            // the re-serialized file must load strictly as the new version -- only judged when the check itself was right,
            // otherwise the root cause is already reported above
            if reference.is_ok() {
                match guarded(|| l1.file.serialize()) {
                    Ok(Ok(s)) => match load_classified(s.as_bytes(), true) {
                        Ok(Ok(l3)) => {
                            if l3.file.version() != *v2 {
                                ctx.violation("reserialized-file-has-wrong-version", w(json!({})));
                            }
                        }
                        Ok(Err(e)) => ctx.violation(format!("reserialized-file-not-loadable|{}", e.class), w(json!({"error": e.text}))),
                        Err(_) => {}
                    },
                    other => ctx.violation("serialize-fails-after-set_version", w(json!({"result": format!("{:?}", other.map(|r| r.map(|_| ())))}))),
                }
            }
            // back to the source version for the next target
            if l1.file.set_version(v1).is_err() {
                ctx.violation("cannot-return-to-source-version", w(json!({})));
                return;
            }
        } else if l1.file.version() != v1 {
            ctx.violation("failed-set_version-changed-version", w(json!({})));
            return;
        }
    }
}

fn full_child(s: &SubSpec, v: AutosarVersion) -> Option<Node> {
    let mut ctr = 0;
    let mut n = minimal_node(s.name, s.etype, v, &mut ctr)?;
    for (an, spec, required) in crate::common::specgraph::attribute_specs(s.etype).into_iter() {
        if required || !s.etype.find_attribute_spec(an).is_some_and(|a| v.compatible(a.version)) {
            continue;
        }
        if let Some(val) = sample_value(spec, v, &mut ctr) {
            n.attrs.push((an.to_str().to_string(), val));
        }
    }
    Some(n)
}

fn doc_with(path: &[Step], children: Vec<Node>, v: AutosarVersion) -> Option<Node> {
    let mut ctr = 1000;
    let last = path.last().unwrap();
    let mut p = minimal_node(last.name, last.etype, v, &mut ctr)?;
    for c in children {
        p.items.push(Item::Node(c));
    }
    if path.len() == 1 {
        return Some(p);
    }
    wrap_in_path(path, p, v, &mut ctr)
}

pub fn run(tier: Tier) -> i32 {
    let ctx = Ctx::new("C17", tier);
    let cnt = Counters { docs: AtomicU64::new(0), checks: AtomicU64::new(0), compatible: AtomicU64::new(0), set_version_ok: AtomicU64::new(0) };
    // quick: every source version, but only the targets next to it (every difference between versions is introduced at
    // some boundary, which is crossed in both directions this way) and the two extremes; thorough: all 21 x 21
    let sources: Vec<AutosarVersion> = VERSIONS.to_vec();
    let targets_of = |v1: AutosarVersion| -> Vec<AutosarVersion> {
        if tier == Tier::Thorough {
            return VERSIONS.to_vec();
        }
        let i = version_index(v1);
        let mut t = vec![VERSIONS[0], VERSIONS[VERSIONS.len() - 1]];
        if i > 0 {
            t.push(VERSIONS[i - 1]);
        }
        if i + 1 < VERSIONS.len() {
            t.push(VERSIONS[i + 1]);
        }
        t.sort_by_key(|v| version_index(*v));
        t.dedup();
        t
    };
    let two_file_every: usize = tier.pick(4, 1);
    let mut states = 0u64;
    let mut edges = 0u64;
    for v1 in &sources {
        let targets = targets_of(*v1);
        let r = reach(*v1);
        states += r.order.len() as u64;
        edges += r.edges as u64;
        r.order.par_iter().enumerate().for_each(|(pi, p)| {
            if p.content_mode() == ContentMode::Characters {
                return;
            }
            let path = &r.path[p];
            let named = p.is_named_in_version(*v1);
            let subs = sub_specs(*p, *v1);
            let sn_idx = if named { subs.iter().find(|s| s.name == ElementName::ShortName).map(|s| s.indices.clone()) } else { None };
            for s in subs {
                if s.name == ElementName::ShortName && named {
                    continue;
                }
                if sn_idx.as_ref().is_some_and(|sn| p.find_common_group(sn, &s.indices).content_mode() == ContentMode::Choice) {
                    continue; // an exclusive alternative of the mandatory SHORT-NAME cannot occur in a valid document
                }
                let Some(child) = full_child(&s, *v1) else { continue };
                let Some(tree) = doc_with(path, vec![child.clone()], *v1) else { continue };
                check_doc(&ctx, &cnt, "edge", &tree, *v1, &targets, pi % two_file_every == 0, path.len() - 1);
                // one document per enum item with a partial version mask (attribute and element position)
                let all: u32 = VERSIONS.iter().fold(0, |a, v| a | *v as u32);
                for (an, spec, _) in crate::common::specgraph::attribute_specs(s.etype).into_iter() {
                    if !s.etype.find_attribute_spec(an).is_some_and(|a| v1.compatible(a.version)) {
                        continue;
                    }
                    if let CharacterDataSpec::Enum { items } = spec {
                        for (item, mask) in items.iter() {
                            if v1.compatible(*mask) && (*mask & all) != all {
                                let mut c = child.clone();
                                c.attrs.retain(|(a, _)| a != an.to_str());
                                c.attrs.push((an.to_str().into(), Val::Enum(item.to_str().into())));
                                if let Some(t) = doc_with(path, vec![c], *v1) {
                                    check_doc(&ctx, &cnt, "enum-item-in-attribute", &t, *v1, &targets, false, path.len() - 1);
                                }
                            }
                        }
                    }
                }
                if s.etype.content_mode() == ContentMode::Characters {
                    if let Some(CharacterDataSpec::Enum { items }) = s.etype.chardata_spec() {
                        for (item, mask) in items.iter() {
                            if v1.compatible(*mask) && (*mask & all) != all {
                                let mut c = child.clone();
                                c.items.retain(|i| matches!(i, Item::Node(_)));
                                c.items.push(Item::Text(Val::Enum(item.to_str().into())));
                                if let Some(t) = doc_with(path, vec![c], *v1) {
                                    check_doc(&ctx, &cnt, "enum-item-in-element", &t, *v1, &targets, false, path.len() - 1);
                                }
                            }
                        }
                    }
                }
            }
        });
        if ctx.elapsed() > tier.pick(50.0, 1500.0) {
            ctx.count("source_versions_skipped_by_time_cap", 1);
            break;
        }
    }
    let checks = cnt.checks.load(Ordering::Relaxed);
    ctx.count("documents", cnt.docs.load(Ordering::Relaxed));
    ctx.count("source_target_checks", checks);
    ctx.count("compatible_results", cnt.compatible.load(Ordering::Relaxed));
    ctx.count("successful_set_version", cnt.set_version_ok.load(Ordering::Relaxed));
    ctx.eval(checks);
    ctx.outcome(format!("compatible>0:{}", cnt.compatible.load(Ordering::Relaxed) > 0));
    ctx.outcome(format!("incompatible>0:{}", checks > cnt.compatible.load(Ordering::Relaxed)));
    ctx.sample(json!({"document": "minimal chain to a type P with one child carrying every attribute valid in the source version", "targets": "all 21 versions"}));
    ctx.assume("reference for 'compatible with v2': the same tree printed with the v2 header loads strictly");
    let cov = json!({
        "states": states,
        "transitions": edges,
        "traces_validated_against_impl": checks,
        "source_versions": sources.len(),
        "target_versions": 21,
        "exhaustive": true,
    });
    ctx.finish("model_checking", cov)
}

pub fn replay(v: &Value) -> i32 {
    let w = &v["witness"];
    let text = w["text_in_source_version"].as_str().or(w["file_a"].as_str()).expect("no text");
    let m = AutosarModel::new();
    let (f, _) = m.load_buffer(text.as_bytes(), "x.arxml", true).expect("source document loads");
    for v2 in VERSIONS {
        let (errs, mask) = f.check_version_compatibility(v2);
        let relabelled = text.replace(xsd_name(f.version()), xsd_name(v2));
        let strict = AutosarModel::new().load_buffer(relabelled.as_bytes(), "y.arxml", true).map(|_| ()).map_err(|e| e.to_string());
        println!("{v2:?}: check={:?} mask_has_target={} strict_load_as_target={strict:?}", compat_kinds(&errs), v2.compatible(mask));
    }
    1
}
