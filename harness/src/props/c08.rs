//! C08 — strict and lenient validation agree, and strict validation has no holes. Engine specwalk:
//! single-edge documents for every (type, sub-element) edge per version, with every applicable defect injected.
use super::c01::{index_of, load_classified, LoadErr, Loaded};
use crate::common::specgraph::*;
use crate::common::specvalid::*;
use crate::common::tree::*;
use crate::common::*;
use autosar_data::*;
use autosar_data_specification::*;
use rayon::prelude::*;
use serde_json::{json, Value};
use std::collections::HashSet;
use std::str::FromStr;
use std::sync::atomic::{AtomicU64, Ordering};

#[derive(Default)]
pub struct Stats {
    pub docs: AtomicU64,
    pub clean: AtomicU64,
    pub warned: AtomicU64,
    pub hard: AtomicU64,
    pub documented: AtomicU64,
}

/// the four C08 oracles on one text. `must_reject`: the harness's own validator found a documented violation
pub fn check_text(ctx: &Ctx, stats: &Stats, defect: &str, text: &str, must_reject: Option<&str>, mk_witness: &dyn Fn() -> Value) {
    stats.docs.fetch_add(1, Ordering::Relaxed);
    let strict = load_classified(text.as_bytes(), true);
    let lenient = load_classified(text.as_bytes(), false);
    let (strict, lenient): (Result<Loaded, LoadErr>, Result<Loaded, LoadErr>) = match (strict, lenient) {
        (Ok(s), Ok(l)) => (s, l),
        (s, l) => {
            let which = if s.is_err() { "strict" } else { "lenient" };
            let _ = l;
            ctx.violation(format!("panic|{which}|{}", last_panic_loc()), json!({"kind": "doc", "defect": defect, "doc": mk_witness()}));
            return;
        }
    };
    match (&strict, &lenient) {
        (Ok(s), Ok(l)) => {
            if !l.warnings.is_empty() {
                ctx.violation(format!("strict-accepts-what-lenient-warns-about|{}", l.warning_classes[0]), json!({"kind": "doc", "defect": defect, "doc": mk_witness(), "warning": l.warnings[0]}));
            } else {
                stats.clean.fetch_add(1, Ordering::Relaxed);
                let (a, b) = (snapshot_model(&s.model), snapshot_model(&l.model));
                if let Some(d) = a.diff(&b, "") {
                    ctx.violation("strict-and-lenient-models-differ", json!({"kind": "doc", "defect": defect, "doc": mk_witness(), "diff": d}));
                } else if index_of(&s.model) != index_of(&l.model) {
                    ctx.violation("strict-and-lenient-indexes-differ", json!({"kind": "doc", "defect": defect, "doc": mk_witness()}));
                }
            }
        }
        (Err(e), Ok(l)) => {
            stats.warned.fetch_add(1, Ordering::Relaxed);
            if l.warnings.is_empty() {
                ctx.violation(format!("strict-rejects-what-lenient-accepts-silently|{}", e.class), json!({"kind": "doc", "defect": defect, "doc": mk_witness(), "strict_error": e.text}));
            } else if l.warnings[0] != e.text {
                ctx.violation(
                    format!("strict-error-is-not-first-warning|{}|{}", e.class, l.warning_classes[0]),
                    json!({"kind": "doc", "defect": defect, "doc": mk_witness(), "strict_error": e.text, "first_warning": l.warnings[0]}),
                );
            }
        }
        (Ok(_), Err(e)) => {
            ctx.violation(format!("lenient-rejects-what-strict-accepts|{}", e.class), json!({"kind": "doc", "defect": defect, "doc": mk_witness(), "lenient_error": e.text}));
        }
        (Err(_), Err(_)) => {
            stats.hard.fetch_add(1, Ordering::Relaxed);
        }
    }
    if let Some(kind) = must_reject {
        stats.documented.fetch_add(1, Ordering::Relaxed);
        if strict.is_ok() {
            ctx.violation(format!("strict-hole|{kind}"), json!({"kind": "doc", "defect": defect, "doc": mk_witness(), "violated_constraint": kind}));
        }
    }
    ctx.outcome(format!("{defect}:{}:{}", strict.is_ok(), lenient.as_ref().map(|l| l.warnings.is_empty()).map_or("err".into(), |b| b.to_string())));
}

/// check a tree: print it, evaluate the harness's validator, run the oracles
fn check_tree(ctx: &Ctx, stats: &Stats, defect: &str, tree: &Node, v: AutosarVersion, suffix: &str) {
    let mut text = print_document(tree, v, &PrintOpts { layout: Layout::Compact, ..PrintOpts::default() });
    text.push_str(suffix);
    let viol = validate_tree(tree, v);
    let must = viol.first().map(|x| x.kind);
    let must = if !suffix.is_empty() && !suffix.starts_with("<!--") && must.is_none() { Some("data-after-root") } else { must };
    let w = || json!({"version": format!("{v:?}"), "text": text, "harness_validator": viol.iter().take(3).map(|x| format!("{} at {}", x.kind, x.at)).collect::<Vec<_>>()});
    check_text(ctx, stats, defect, &text, must, &w);
}

fn full_node(name: ElementName, t: ElementType, v: AutosarVersion, ctr: &mut usize) -> Option<Node> {
    // minimal node plus every optional attribute valid in v
    let mut n = minimal_node(name, t, v, ctr)?;
    for (an, spec, required) in crate::common::specgraph::attribute_specs(t).into_iter() {
        if required {
            continue;
        }
        if !t.find_attribute_spec(an).is_some_and(|a| v.compatible(a.version)) {
            continue;
        }
        if let Some(val) = sample_value(spec, v, ctr) {
            n.attrs.push((an.to_str().to_string(), val));
        }
    }
    Some(n)
}

fn with_children(path: &[Step], children: Vec<Node>, v: AutosarVersion, drop_short_name: bool) -> Option<Node> {
    let mut ctr = 1000;
    let last = path.last().unwrap();
    let mut p = minimal_node(last.name, last.etype, v, &mut ctr)?;
    if drop_short_name {
        p.items.retain(|i| !matches!(i, Item::Node(n) if n.name == "SHORT-NAME"));
    }
    for c in children {
        p.items.push(Item::Node(c));
    }
    if path.len() == 1 {
        return Some(p);
    }
    wrap_in_path(path, p, v, &mut ctr)
}

fn long_value(spec: &CharacterDataSpec, len: usize) -> Option<String> {
    match spec {
        CharacterDataSpec::String { .. } => Some("a".repeat(len)),
        CharacterDataSpec::Pattern { check_fn, .. } => ["a", "1", "A"].iter().map(|c| c.repeat(len)).find(|s| check_fn(s.as_bytes())),
        _ => None,
    }
}

/// texts outside the value space, judged by the harness's own automaton of the regular expression (never by the crate's
/// validator, which is the subject): generic ones, every proper prefix of a member, and the shortest non-members of the
/// transition cover (access string of every state extended by one byte of every byte class)
fn non_member(spec: &CharacterDataSpec) -> Vec<String> {
    use crate::common::regexdfa::Dfa;
    use std::collections::HashMap;
    use std::sync::Mutex;
    static CACHE: Mutex<Option<HashMap<String, Vec<String>>>> = Mutex::new(None);
    match spec {
        CharacterDataSpec::Pattern { regex, .. } => {
            if let Some(v) = CACHE.lock().unwrap().get_or_insert_with(HashMap::new).get(*regex) {
                return v.clone();
            }
            let mut ctr = 0;
            let m = sample_for_regex(regex, &mut ctr);
            let mut c: Vec<String> = vec!["!".into(), format!("{m}!"), format!("!{m}"), "\u{e9}".into()];
            for k in 1..m.len() {
                if m.is_char_boundary(k) {
                    c.push(m[..k].to_string());
                }
            }
            let out: Vec<String> = match Dfa::from_regex(regex) {
                Ok(d) => {
                    let d = d.minimized();
                    let (_, reps) = d.byte_classes();
                    let mut cover: Vec<Vec<u8>> = vec![];
                    for access in d.state_cover() {
                        for b in &reps {
                            let mut t = access.clone();
                            t.push(*b);
                            cover.push(t);
                        }
                        cover.push(access);
                    }
                    cover.sort_by_key(|t| (t.len(), t.clone()));
                    cover.dedup();
                    let near: Vec<String> = cover
                        .into_iter()
                        .filter(|t| !t.is_empty() && t.len() <= 8 && !d.accepts(t) && t.iter().all(|b| (0x20..0x7f).contains(b) && !b"<>&\"'".contains(b)))
                        .filter_map(|t| String::from_utf8(t).ok())
                        .filter(|t| t.trim() == t)
                        .take(16)
                        .collect();
                    c.extend(near);
                    c.sort();
                    c.dedup();
                    c.into_iter().filter(|s| !s.is_empty() && !d.accepts(s.as_bytes())).collect()
                }
                // no automaton for this expression: fall back to texts that no AUTOSAR pattern accepts
                Err(_) => vec!["!".into(), "\u{e9}".into()],
            };
            CACHE.lock().unwrap().get_or_insert_with(HashMap::new).insert(regex.to_string(), out.clone());
            out
        }
        CharacterDataSpec::UnsignedInteger => vec!["x1".into(), "-1".into(), "1.5".into(), "18446744073709551616".into(), "0x10".into()],
        CharacterDataSpec::Float => vec!["abc".into(), "1,5".into(), "--1".into(), "1e".into()],
        _ => vec![],
    }
}

const BAD_ENTITIES: [&str; 9] = ["a&b", "&foo;", "&#xZZ;", "&#1114112;", "&#x110000;", "&amp", "&#;", "&#x;", "&#55296;"];

fn edge_cases(ctx: &Ctx, stats: &Stats, r: &Reach, tier: Tier, relabel_targets: &[AutosarVersion], pairs_enabled: bool) {
    let v = r.version;
    let not_listed_anywhere = |p: ElementType| -> Option<ElementName> {
        [ElementName::ArPackages, ElementName::CanCluster, ElementName::Elements, ElementName::L2]
            .into_iter()
            .find(|n| p.find_sub_element(*n, u32::MAX).is_none())
    };
    let foreign_item = |items: &[(EnumItem, u32)]| -> Option<EnumItem> {
        [EnumItem::Abstract, EnumItem::CanCluster, EnumItem::En, EnumItem::True].into_iter().find(|c| !items.iter().any(|(i, _)| i == c))
    };
    r.order.par_iter().for_each(|p| {
        if p.content_mode() == ContentMode::Characters {
            return;
        }
        let path = &r.path[p];
        let subs = sub_specs(*p, v);
        let named = p.is_named_in_version(v);
        // parent-level defects
        if let Some(base) = with_children(path, vec![], v, false) {
            check_tree(ctx, stats, "none(parent-only)", &base, v, "");
            if let Some(t) = with_children(path, vec![Node::new("FOO-BAR")], v, false) {
                check_tree(ctx, stats, "unknown-element", &t, v, "");
            }
            if let Some(n) = not_listed_anywhere(*p) {
                if let Some(t) = with_children(path, vec![Node::new(n.to_str())], v, false) {
                    check_tree(ctx, stats, "element-not-allowed-here", &t, v, "");
                }
            }
            if named {
                if let Some(t) = with_children(path, vec![], v, true) {
                    check_tree(ctx, stats, "short-name-missing", &t, v, "");
                }
            }
        }
        // choice conflicts and doubled single-occurrence children
        let cap = tier.pick(40usize, usize::MAX);
        let mut pairs = 0;
        'outer: for a in &subs {
            if a.name == ElementName::ShortName {
                continue;
            }
            for b in &subs {
                if b.name == ElementName::ShortName || a.indices == b.indices {
                    continue;
                }
                if p.find_common_group(&a.indices, &b.indices).content_mode() == ContentMode::Choice {
                    let mut ctr = 0;
                    if let (Some(na), Some(nb)) = (minimal_node(a.name, a.etype, v, &mut ctr), minimal_node(b.name, b.etype, v, &mut ctr)) {
                        if let Some(t) = with_children(path, vec![na, nb], v, false) {
                            check_tree(ctx, stats, "choice-conflict", &t, v, "");
                        }
                    }
                    pairs += 1;
                    if pairs >= cap {
                        break 'outer;
                    }
                }
            }
        }
        for s in &subs {
            if s.name == ElementName::ShortName && named {
                continue;
            }
            let mut ctr = 0;
            let Some(child) = full_node(s.name, s.etype, v, &mut ctr) else { continue };
            let Some(base) = with_children(path, vec![child.clone()], v, false) else { continue };
            // the valid single-edge document in its own version and relabelled to others
            check_tree(ctx, stats, "none", &base, v, "");
            for v2 in relabel_targets {
                if *v2 != v {
                    check_tree(ctx, stats, "relabel", &base, *v2, "");
                }
            }
            // doubled
            let mut c2 = 0;
            if let (Some(x), Some(y)) = (minimal_node(s.name, s.etype, v, &mut c2), minimal_node(s.name, s.etype, v, &mut c2)) {
                if let Some(t) = with_children(path, vec![x, y], v, false) {
                    check_tree(ctx, stats, "doubled-child", &t, v, "");
                }
            }
            // doubled, but not adjacent: the same single-occurrence child before and after a different sibling
            let mut interposed = 0;
            for t in subs.iter() {
                if t.indices == s.indices || (t.name == ElementName::ShortName && named) {
                    continue;
                }
                if p.find_common_group(&s.indices, &t.indices).content_mode() == ContentMode::Choice {
                    continue;
                }
                let mut c3 = 0;
                if let (Some(x), Some(m), Some(y)) = (minimal_node(s.name, s.etype, v, &mut c3), minimal_node(t.name, t.etype, v, &mut c3), minimal_node(s.name, s.etype, v, &mut c3)) {
                    if let Some(tree) = with_children(path, vec![x, m, y], v, false) {
                        check_tree(ctx, stats, "doubled-child-not-adjacent", &tree, v, "");
                    }
                }
                interposed += 1;
                if interposed >= 3 {
                    break;
                }
            }
            // attribute defects on the child
            let variants: std::cell::RefCell<Vec<(String, Node)>> = std::cell::RefCell::new(vec![]);
            let mut c = child.clone();
            c.attrs.push(("FOO".into(), Val::Str("1".into())));
            variants.borrow_mut().push(("unknown-attribute".into(), c.clone()));
            if let Some(t) = with_children(path, vec![c], v, false) {
                check_tree(ctx, stats, "unknown-attribute", &t, v, "");
            }
            for known in ["UUID", "DEST", "T"] {
                if s.etype.find_attribute_spec(AttributeName::from_str(known).unwrap()).is_none() {
                    let mut c = child.clone();
                    c.attrs.push((known.into(), Val::Str("x".into())));
                    if let Some(t) = with_children(path, vec![c], v, false) {
                        check_tree(ctx, stats, "attribute-not-allowed-here", &t, v, "");
                    }
                    break;
                }
            }
            for (an, spec, required) in crate::common::specgraph::attribute_specs(s.etype).into_iter() {
                let Some(aspec) = s.etype.find_attribute_spec(an) else { continue };
                if required {
                    let mut c = child.clone();
                    c.attrs.retain(|(a, _)| a != an.to_str());
                    variants.borrow_mut().push(("required-attribute-missing".into(), c.clone()));
                    if let Some(t) = with_children(path, vec![c], v, false) {
                        check_tree(ctx, stats, "required-attribute-missing", &t, v, "");
                    }
                }
                if !v.compatible(aspec.version) {
                    // an attribute that exists only in other versions
                    let mut ctr = 0;
                    if let Some(val) = sample_value(spec, v, &mut ctr).or_else(|| sample_value(spec, AutosarVersion::LATEST, &mut ctr)) {
                        let mut c = child.clone();
                        c.attrs.push((an.to_str().into(), val));
                        if let Some(t) = with_children(path, vec![c], v, false) {
                            check_tree(ctx, stats, "attribute-not-in-version", &t, v, "");
                        }
                    }
                    continue;
                }
                let set_attr = |val: Val| {
                    let mut c = child.clone();
                    c.attrs.retain(|(a, _)| a != an.to_str());
                    c.attrs.push((an.to_str().into(), val));
                    variants.borrow_mut().push(("attribute-value-defect".into(), c.clone()));
                    with_children(path, vec![c], v, false)
                };
                value_defects(ctx, stats, spec, v, "attribute", &set_attr);
            }
            // value defects on a character child
            if s.etype.content_mode() == ContentMode::Characters {
                if let Some(spec) = s.etype.chardata_spec() {
                    let set_text = |val: Val| {
                        let mut c = child.clone();
                        c.items.retain(|i| matches!(i, Item::Node(_)));
                        c.items.push(Item::Text(val));
                        variants.borrow_mut().push(("element-value-defect".into(), c.clone()));
                        with_children(path, vec![c], v, false)
                    };
                    value_defects(ctx, stats, spec, v, "element", &set_text);
                }
            } else if s.etype.chardata_spec().is_none() {
                // text where no text is allowed
                let mut c = child.clone();
                c.items.push(Item::Text(Val::Str("stray".into())));
                variants.borrow_mut().push(("character-content-forbidden".into(), c.clone()));
                if let Some(t) = with_children(path, vec![c], v, false) {
                    check_tree(ctx, stats, "character-content-forbidden", &t, v, "");
                }
                // text that consists of control characters only: not whitespace, so it is character content as well
                for ctl in ["\u{1}", "\u{b}", " \u{1b} ", "\u{0}"] {
                    let mut c = child.clone();
                    c.items.push(Item::Text(Val::Str(ctl.into())));
                    if let Some(t) = with_children(path, vec![c], v, false) {
                        check_tree(ctx, stats, "character-content-forbidden(control-characters)", &t, v, "");
                    }
                }
            }
            if s.etype.is_named_in_version(v) {
                // SHORT-NAME present but empty: not a "missing SHORT-NAME" by the letter; only the agreement oracles apply
                let mut c = child.clone();
                for it in c.items.iter_mut() {
                    if let Item::Node(n) = it {
                        if n.name == "SHORT-NAME" {
                            n.items.clear();
                        }
                    }
                }
                if let Some(t) = with_children(path, vec![c], v, false) {
                    let text = print_document(&t, v, &PrintOpts { layout: Layout::Compact, ..PrintOpts::default() });
                    check_text(ctx, stats, "empty-short-name", &text, None, &|| json!({"version": format!("{v:?}"), "text": text}));
                }
            }
            // pairs of defects: every child-level defect combined with every parent/sibling-level defect
            if pairs_enabled {
                let alt: Option<Node> = subs
                    .iter()
                    .find(|b| b.name != ElementName::ShortName && b.indices != s.indices && p.find_common_group(&s.indices, &b.indices).content_mode() == ContentMode::Choice)
                    .and_then(|b| minimal_node(b.name, b.etype, v, &mut 0));
                for (label, cv) in variants.borrow().iter() {
                    let mut combos: Vec<(&str, Vec<Node>, bool)> = vec![
                        ("short-name-missing", vec![cv.clone()], true),
                        ("doubled-child", vec![cv.clone(), cv.clone()], false),
                        ("unknown-element-after", vec![cv.clone(), Node::new("FOO-BAR")], false),
                        ("unknown-element-before", vec![Node::new("FOO-BAR"), cv.clone()], false),
                    ];
                    if let Some(a) = &alt {
                        combos.push(("choice-sibling-before", vec![a.clone(), cv.clone()], false));
                        combos.push(("choice-sibling-after", vec![cv.clone(), a.clone()], false));
                    }
                    for (l2, children, drop_sn) in combos {
                        if drop_sn && !named {
                            continue;
                        }
                        if let Some(t) = with_children(path, children, v, drop_sn) {
                            check_tree(ctx, stats, &format!("pair:{label}+{l2}"), &t, v, "");
                        }
                    }
                }
            }
        }
        // sub-elements that exist only in other versions
        for name in lookup_names(*p).iter().copied() {
            if subs.iter().any(|s| s.name == name) {
                continue;
            }
            if let Some((ft, idx)) = p.find_sub_element(name, u32::MAX) {
                let mask = p.get_sub_element_version_mask(&idx).unwrap_or(0);
                let mut ctr = 0;
                // build the foreign child with a version in which it exists, so that only its presence is wrong
                let vv = VERSIONS.iter().rev().copied().find(|x| x.compatible(mask)).unwrap_or(v);
                if let Some(c) = minimal_node(name, ft, vv, &mut ctr) {
                    if let Some(t) = with_children(path, vec![c], v, false) {
                        check_tree(ctx, stats, "element-not-in-version", &t, v, "");
                    }
                }
            }
        }
        let _ = foreign_item;
    });
    fn value_defects(ctx: &Ctx, stats: &Stats, spec: &'static CharacterDataSpec, v: AutosarVersion, pos: &str, set: &dyn Fn(Val) -> Option<Node>) {
        let mut run = |defect: &str, val: Val| {
            if let Some(t) = set(val) {
                check_tree(ctx, stats, &format!("{defect}({pos})"), &t, v, "");
            }
        };
        match spec {
            CharacterDataSpec::Enum { items } => {
                run("unknown-enum-item", Val::Str("NOT-AN-ITEM".into()));
                if let Some(f) = [EnumItem::Abstract, EnumItem::CanCluster, EnumItem::En, EnumItem::True].into_iter().find(|c| !items.iter().any(|(i, _)| i == c)) {
                    run("enum-item-of-other-enumeration", Val::Str(f.to_str().into()));
                }
                for (item, mask) in items.iter() {
                    if !v.compatible(*mask) {
                        run("enum-item-not-in-version", Val::Str(item.to_str().into()));
                    }
                }
            }
            CharacterDataSpec::Pattern { max_length, .. } | CharacterDataSpec::String { max_length, .. } => {
                if let Some(m) = max_length {
                    if let Some(s) = long_value(spec, m + 1) {
                        run("value-too-long", Val::Str(s));
                    }
                    if let Some(s) = long_value(spec, *m) {
                        run("value-at-length-limit", Val::Str(s));
                    }
                }
                for nm in non_member(spec) {
                    run("pattern-mismatch", Val::Str(nm));
                }
                if matches!(spec, CharacterDataSpec::String { .. }) {
                    for e in BAD_ENTITIES {
                        run("bad-entity", Val::Raw(e.to_string()));
                    }
                    run("good-entities", Val::Raw("&lt;&gt;&amp;&apos;&quot;&#65;&#x42;".into()));
                }
            }
            CharacterDataSpec::UnsignedInteger | CharacterDataSpec::Float => {
                for nm in non_member(spec) {
                    run("not-a-number", Val::Str(nm));
                }
            }
        }
    }
}

fn header_cases(ctx: &Ctx, stats: &Stats) {
    let v = AutosarVersion::Autosar_00050;
    let body = "<AR-PACKAGES><AR-PACKAGE><SHORT-NAME>p</SHORT-NAME></AR-PACKAGE></AR-PACKAGES></AUTOSAR>";
    let hdr = "<?xml version=\"1.0\" encoding=\"utf-8\"?>";
    let root = |xsd: &str| format!("<AUTOSAR xsi:schemaLocation=\"http://autosar.org/schema/r4.0 {xsd}\" xmlns=\"http://autosar.org/schema/r4.0\" xmlns:xsi=\"http://www.w3.org/2001/XMLSchema-instance\">");
    let w = |t: &str| json!({"text": t});
    // trailing data after the root element
    for (suffix, documented) in [("<X/>", true), ("text", true), ("<AR-PACKAGES/>", true), ("<!--c-->", false), ("\n \n", false), ("<?pi?>", false), ("</AUTOSAR>", true), ("\u{1}", true), ("\n\u{b}\n", true), (" \u{0} ", true), ("\u{1b}", true),
        // data behind a trailer that is not data itself
        ("<!--c--><X/>", true), ("<!--c-->text", true), ("<!--c--><AR-PACKAGES/>", true), ("<!--c--></AUTOSAR>", true), ("<?pi?><X/>", true), ("\n<!--c-->\n<X/>", true), ("<!--a--><!--b-->text", true), ("<!--c--><?pi?>\u{1}", true), ("<!--c--><AUTOSAR>", true)] {
        let text = format!("{hdr}{}{body}{suffix}", root(xsd_name(v)));
        let label = format!("trailing-data {suffix:?}");
        check_text(ctx, stats, &label, &text, documented.then_some("data-after-root"), &|| w(&text));
    }
    // version labels
    for (xsd, documented) in [
        ("AUTOSAR_9-9-9.xsd", true),
        ("AUTOSAR_4-3-1.xsd", true),
        ("AUTOSAR_4-4-0.xsd", true),
        ("AUTOSAR_4-5-0.xsd", true),
        ("", true),
        ("AUTOSAR_00050.xsd ", false),
        ("autosar_00050.xsd", false),
        ("AUTOSAR_00050.XSD", true),
        ("AUTOSAR_00054.xsd", true),
    ] {
        let text = format!("{hdr}{}{body}", root(xsd));
        check_text(ctx, stats, &format!("version-label {xsd:?}"), &text, documented.then_some("unknown-version-label"), &|| w(&text));
    }
    // header variants: agreement only
    for h in ["<?xml version=\"1.0\" encoding=\"UTF-8\"?>", "<?xml version=\"1.1\" encoding=\"utf-8\"?>", "<?xml version=\"1.0\"?>", "", "<?xml version=\"1.0\" encoding=\"utf-8\"?><?xml version=\"1.0\" encoding=\"utf-8\"?>"] {
        let text = format!("{h}{}{body}", root(xsd_name(v)));
        check_text(ctx, stats, "xml-header-variant", &text, None, &|| w(&text));
    }
    // a second xml header inside the document
    let text = format!("{hdr}{}<?xml version=\"1.0\" encoding=\"utf-8\"?>{body}", root(xsd_name(v)));
    check_text(ctx, stats, "xml-header-inside", &text, None, &|| w(&text));
}

pub fn run(tier: Tier) -> i32 {
    let ctx = Ctx::new("C08", tier);
    let stats = Stats::default();
    let versions: Vec<AutosarVersion> = tier.pick(vec![VERSIONS[0], VERSIONS[8], VERSIONS[17], VERSIONS[20]], VERSIONS.to_vec());
    let relabel: Vec<AutosarVersion> = tier.pick(vec![VERSIONS[0], VERSIONS[9], VERSIONS[20]], vec![VERSIONS[0], VERSIONS[5], VERSIONS[9], VERSIONS[14], VERSIONS[17], VERSIONS[20]]);
    let mut states = 0u64;
    let mut edges = 0u64;
    for v in &versions {
        let r = reach(*v);
        for (kind, t, n) in listing_lookup_discrepancies(&r) {
            ctx.violation(format!("spec|{kind}"), json!({"version": format!("{:?}", r.version), "type": t, "name": n.to_str()}));
        }
        states += r.order.len() as u64;
        edges += r.edges as u64;
        let pairs_enabled = tier == Tier::Thorough || *v == AutosarVersion::LATEST;
        edge_cases(&ctx, &stats, &r, tier, &relabel, pairs_enabled);
        if ctx.elapsed() > tier.pick(50.0, 1500.0) {
            ctx.count("versions_skipped_by_time_cap", 1);
            break;
        }
    }
    header_cases(&ctx, &stats);
    // every input of C02's seed family: prefixes and single edits, agreement oracles only
    let mut n_edit = 0u64;
    for (_name, doc) in super::c02::seeds() {
        for i in (0..=doc.len()).step_by(tier.pick(3, 1)) {
            if let Ok(text) = std::str::from_utf8(&doc[..i]) {
                n_edit += 1;
                check_text(&ctx, &stats, "seed-prefix", text, None, &|| json!({"text": text}));
            }
        }
    }
    ctx.count("seed_prefixes", n_edit);
    let docs = stats.docs.load(Ordering::Relaxed);
    ctx.count("documents", docs);
    ctx.count("strict_ok_and_clean", stats.clean.load(Ordering::Relaxed));
    ctx.count("lenient_with_warnings", stats.warned.load(Ordering::Relaxed));
    ctx.count("rejected_by_both", stats.hard.load(Ordering::Relaxed));
    ctx.count("documents_with_documented_violation", stats.documented.load(Ordering::Relaxed));
    ctx.eval(docs);
    ctx.sample(json!({"defect": "choice-conflict", "shape": "minimal chain to every type P, two adjacent children that are exclusive alternatives"}));
    ctx.sample(json!({"defect": "relabel", "shape": "valid single-edge document of version v1 printed with the header of v2"}));
    ctx.assume("a comment, whitespace or processing instruction after the root element is not 'data after the root element'");
    ctx.assume("which constraint a document violates is decided by the harness's own validator (common/specvalid.rs) from the specification tables");
    let cov = json!({
        "states": states,
        "transitions": edges,
        "traces_validated_against_impl": docs,
        "versions": versions.len(),
        "exhaustive": true,
    });
    ctx.finish("model_checking", cov)
}

pub fn replay(v: &Value) -> i32 {
    let text = v["witness"]["doc"]["text"].as_str().expect("witness has no text");
    for strict in [true, false] {
        match load_classified(text.as_bytes(), strict) {
            Ok(Ok(l)) => println!("strict={strict}: Ok, warnings: {:?}", l.warnings),
            Ok(Err(e)) => println!("strict={strict}: Err {}", e.text),
            Err(p) => println!("strict={strict}: panic {p}"),
        }
    }
    1
}
