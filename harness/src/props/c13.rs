//! C13 extras: model duplication (per-file text equal, independence) -- the copy oracles live in the histx engine.
use crate::common::*;
use crate::engine::histx::*;
use rayon::prelude::*;
use serde_json::json;

/// duplicate() in every state reachable within depth 1 (quick) / 2 (thorough) of every seed:
/// per-file text equal; then every operation applied to one side leaves the other side's canonical form unchanged
pub fn duplicate_checks(ctx: &Ctx, tier: Tier) -> (u64, u64) {
    let mut states = 0u64;
    let mut transitions = 0u64;
    for seed_name in SEEDS {
        let w0 = seed(seed_name);
        let mut hists: Vec<Vec<Op>> = vec![vec![]];
        let first: Vec<Op> = ops_for(&w0, Profile::All);
        if tier == Tier::Thorough {
            for op in first.iter() {
                let mut w = seed(seed_name);
                if matches!(apply(&mut w, op), Outcome::Ok(_)) {
                    hists.push(vec![op.clone()]);
                }
            }
        } else {
            for op in first.iter().step_by(7) {
                let mut w = seed(seed_name);
                if matches!(apply(&mut w, op), Outcome::Ok(_)) {
                    hists.push(vec![op.clone()]);
                }
            }
        }
        states += hists.len() as u64;
        let results: Vec<u64> = hists
            .par_iter()
            .map(|hist| {
                let mut n = 0u64;
                let w = replay_history(seed_name, hist);
                let dup = match guarded(|| w.m.duplicate()) {
                    Ok(Ok(d)) => d,
                    Ok(Err(e)) => {
                        // duplicating a model without files fails by contract
                        if w.m.files().count() > 0 {
                            ctx.violation(format!("duplicate|fails|{}", super::c01::err_class(&e)), json!({"kind": "history", "history": history_json(seed_name, hist, None), "error": e.to_string()}));
                        }
                        return 0;
                    }
                    Err(msg) => {
                        ctx.violation(format!("duplicate|panic|{}", last_panic_loc()), json!({"kind": "history", "history": history_json(seed_name, hist, None), "msg": msg}));
                        return 0;
                    }
                };
                let a = canon(&w.m);
                let b = canon(&dup);
                if a.files != b.files {
                    // tell apart models whose own content is not permitted in their version (leniently loaded)
                    let invalid = w.m.files().any(|f| {
                        let v = f.version();
                        crate::common::specvalid::validate_tree(&crate::common::tree::snapshot_model(&w.m), v).iter().any(|x| x.kind != "required-attribute-missing")
                    });
                    let tag = if invalid { "|original-has-content-not-permitted-in-its-version" } else { "" };
                    ctx.violation(format!("duplicate|file-texts-differ{tag}"), json!({"kind": "history", "history": history_json(seed_name, hist, None), "original": a.files, "duplicate": b.files}));
                } else if a.tree != b.tree {
                    ctx.violation("duplicate|tree-or-membership-differs", json!({"kind": "history", "history": history_json(seed_name, hist, None), "original": a.tree, "duplicate": b.tree}));
                } else if a.index != b.index || a.referrers != b.referrers {
                    ctx.violation("duplicate|indexes-differ", json!({"kind": "history", "history": history_json(seed_name, hist, None)}));
                }
                // independence, both directions: apply every operation to one side and watch the other
                let ops = ops_for(&w, Profile::All);
                let step = if tier == Tier::Thorough { 1 } else { 3 };
                for op in ops.iter().step_by(step) {
                    for edit_original in [true, false] {
                        n += 1;
                        let w1 = replay_history(seed_name, hist);
                        let Ok(Ok(d1)) = guarded(|| w1.m.duplicate()) else { continue };
                        let (mut edited, watched) = if edit_original {
                            (World { m: w1.m.clone(), other: w1.other.clone(), held: vec![], held_files: vec![] }, d1.clone())
                        } else {
                            (World { m: d1.clone(), other: w1.other.clone(), held: vec![], held_files: vec![] }, w1.m.clone())
                        };
                        let before = canon(&watched).whole();
                        let _ = apply(&mut edited, op);
                        let after = canon(&watched).whole();
                        if before != after {
                            ctx.violation(
                                format!("duplicate|edit-of-{}-visible-through-the-other|{}", if edit_original { "original" } else { "copy" }, op_kind(op)),
                                json!({"kind": "history", "history": history_json(seed_name, hist, Some(op))}),
                            );
                        }
                    }
                }
                n
            })
            .collect();
        transitions += results.iter().sum::<u64>();
    }
    ctx.count("duplicate_states", states);
    ctx.count("duplicate_independence_transitions", transitions);
    (states, transitions)
}
