//! C13 extras: model duplication (per-file text equal, independence) -- the copy oracles live in the histx engine.
use crate::common::*;
use crate::engine::histx::*;
use rayon::prelude::*;
use serde_json::json;

/// duplicate() in every state reachable within depth 1 (quick) / 2 (thorough) of every seed:
/// per-file text equal; then every operation applied to one side leaves the other side's canonical form unchanged
pub fn duplicate_checks(ctx: &Ctx, tier: Tier) -> (u64, u64) {
    let mut states = 0u64;
    let mut transitions = 0u64;
    for seed_name in SEEDS {
        let w0 = match guarded(|| seed(seed_name)) {
            Ok(w) => w,
            Err(msg) => {
                // the library panics while the seed is built from valid input: C12 reports it; this check cannot use the seed
                ctx.machinery_error(format!("seed {seed_name} cannot be built, the library panics at {} (a C12 matter): {msg}", last_panic_loc()));
                continue;
            }
        };
        let mut hists: Vec<Vec<Op>> = vec![vec![]];
        let first: Vec<Op> = ops_for(&w0, Profile::All);
        if tier == Tier::Thorough {
            for op in first.iter() {
                let mut w = seed(seed_name);
                if matches!(apply(&mut w, op), Outcome::Ok(_)) {
                    hists.push(vec![op.clone()]);
                }
            }
        } else {
            // quick: every 9th first operation; seeds kept for one special shape only from their initial state
            let step = if crate::engine::histx::SHALLOW_SEEDS.contains(&seed_name) { first.len().max(1) } else { 9 };
            for op in first.iter().step_by(step) {
                let mut w = seed(seed_name);
                if matches!(apply(&mut w, op), Outcome::Ok(_)) {
                    hists.push(vec![op.clone()]);
                }
            }
        }
        states += hists.len() as u64;
        let results: Vec<u64> = hists
            .par_iter()
            .map(|hist| {
                let mut n = 0u64;
                let w = replay_history(seed_name, hist);
                let dup = match guarded(|| w.m.duplicate()) {
                    Ok(Ok(d)) => d,
                    Ok(Err(e)) => {
                        // duplicating a model without files fails by contract
                        if w.m.files().count() > 0 {
                            ctx.violation(format!("duplicate|fails|{}", super::c01::err_class(&e)), json!({"kind": "history", "history": history_json(seed_name, hist, None), "error": e.to_string()}));
                        }
                        return 0;
                    }
                    Err(msg) => {
                        ctx.violation(format!("duplicate|panic|{}", last_panic_loc()), json!({"kind": "history", "history": history_json(seed_name, hist, None), "msg": msg}));
                        return 0;
                    }
                };
                let a = canon(&w.m);
                let b = canon(&dup);
                if a.files != b.files {
                    // tell apart models whose own content is not permitted in their version (leniently loaded)
                    // (judged per file: the text of each file, loaded on its own, complains about more than a missing required attribute)
                    let invalid = w.m.files().any(|f| {
                        let Ok(text) = f.serialize() else { return false };
                        match super::c01::load_classified(text.as_bytes(), false) {
                            Ok(Ok(l)) => l.warning_classes.iter().any(|c| c != "ParserError::RequiredAttributeMissing"),
                            _ => true,
                        }
                    });
                    let tag = if invalid { "|original-has-content-not-permitted-in-its-version" } else { "" };
                    ctx.violation(format!("duplicate|file-texts-differ{tag}"), json!({"kind": "history", "history": history_json(seed_name, hist, None), "original": a.files, "duplicate": b.files}));
                } else if a.tree != b.tree {
                    ctx.violation("duplicate|tree-or-membership-differs", json!({"kind": "history", "history": history_json(seed_name, hist, None), "original": a.tree, "duplicate": b.tree}));
                } else if a.index != b.index || a.referrers != b.referrers {
                    ctx.violation("duplicate|indexes-differ", json!({"kind": "history", "history": history_json(seed_name, hist, None)}));
                }
                // independence, both directions: apply every operation to one side and watch the other
                let ops = ops_for(&w, Profile::All);
                let step = if tier == Tier::Thorough { 1 } else { 3 };
                for op in ops.iter().step_by(step) {
                    for edit_original in [true, false] {
                        n += 1;
                        let w1 = replay_history(seed_name, hist);
                        let Ok(Ok(d1)) = guarded(|| w1.m.duplicate()) else { continue };
                        let (mut edited, watched) = if edit_original {
                            (World { m: w1.m.clone(), other: w1.other.clone(), held: vec![], held_files: vec![] }, d1.clone())
                        } else {
                            (World { m: d1.clone(), other: w1.other.clone(), held: vec![], held_files: vec![] }, w1.m.clone())
                        };
                        let before = canon(&watched).whole();
                        let _ = apply(&mut edited, op);
                        let after = canon(&watched).whole();
                        if before != after {
                            ctx.violation(
                                format!("duplicate|edit-of-{}-visible-through-the-other|{}", if edit_original { "original" } else { "copy" }, op_kind(op)),
                                json!({"kind": "history", "history": history_json(seed_name, hist, Some(op))}),
                            );
                        }
                    }
                }
                n
            })
            .collect();
        transitions += results.iter().sum::<u64>();
    }
    ctx.count("duplicate_states", states);
    ctx.count("duplicate_independence_transitions", transitions);
    (states, transitions)
}

/// Cross-version deep copy of full-coverage documents: for every source version (quick: 4, thorough: all 21) the
/// specification-derived document that contains every (type, sub-element) edge and attribute of that version is
/// loaded, and each of its top-level packages is copied into an empty model of every one of the 21 versions.
/// Oracles per (source, target): the copy equals the specification-filtered source (`spec_filter`, the harness's own
/// reading of "omits exactly the parts not permitted there"), the source is unchanged, the destination satisfies the
/// harness's validator and the model invariants (paths and references findable), and its text loads strictly.
pub fn cross_version_copy(ctx: &Ctx, tier: Tier) -> (u64, u64) {
    cross_version_copy_with(ctx, tier, false)
}

/// `only_validity`: report only what concerns the destination being valid in its version (used by C07: every model that
/// successful editing calls produce is valid), not the comparison with the filtered source (C13's own demand)
pub fn cross_version_copy_with(ctx: &Ctx, tier: Tier, only_validity: bool) -> (u64, u64) {
    use crate::common::docgen::DocGen;
    use crate::common::invariants::{all_invariants, Scope};
    use crate::common::specgraph::VERSIONS;
    use crate::common::specvalid::{spec_filter, validate_tree};
    use crate::common::tree::*;
    use autosar_data::*;
    let sources: Vec<AutosarVersion> = VERSIONS.iter().enumerate().filter(|(i, _)| tier == Tier::Thorough || i % 6 == 0 || *i == VERSIONS.len() - 1).map(|(_, v)| *v).collect();
    let pairs: Vec<(AutosarVersion, AutosarVersion)> = sources.iter().flat_map(|s| VERSIONS.iter().map(move |t| (*s, *t))).collect();
    let n_pairs = pairs.len() as u64;
    let copies: u64 = pairs
        .par_iter()
        .map(|(vs, vt)| {
            let mut g = DocGen::new(*vs, false);
            let doc = g.document();
            let text = print_document(&doc, *vs, &PrintOpts::default());
            let w = |extra: serde_json::Value| json!({"kind": "cross-version-copy", "source_version": format!("{vs:?}"), "target_version": format!("{vt:?}"), "generator": "full-document (plain values)", "detail": extra});
            let Ok(Ok(src)) = super::c01::load(text.as_bytes(), true) else {
                ctx.machinery_error(format!("cross-version copy: the generated document of {vs:?} does not load"));
                return 0;
            };
            let src_before = snapshot_model(&src.model);
            let dst = AutosarModel::new();
            let Ok(_) = dst.create_file("dst.arxml", *vt) else { return 0 };
            let Ok(Ok(dst_pkgs)) = guarded(|| dst.root_element().create_sub_element(ElementName::ArPackages)) else {
                ctx.machinery_error("cross-version copy: cannot create AR-PACKAGES");
                return 0;
            };
            let Some(src_pkgs) = src.model.root_element().get_sub_element(ElementName::ArPackages) else { return 0 };
            let mut n = 0u64;
            let mut expected_root = Node::new("AUTOSAR");
            let mut expected_pkgs = Node::new("AR-PACKAGES");
            for pkg in src_pkgs.sub_elements() {
                n += 1;
                let pkg_snap = snapshot(&pkg);
                // the type the element has at the destination in the destination's version (it can differ from the source's)
                let Some((dst_type, _)) = dst_pkgs.element_type().find_sub_element(pkg.element_name(), *vt as u32) else { continue };
                let expected = spec_filter(&pkg_snap, dst_type, *vt);
                // both copy routes: the plain one and the positional one (appending), alternating over packages and version pairs
                let use_at = (n as usize + crate::common::specgraph::version_index(*vs) + crate::common::specgraph::version_index(*vt)) % 2 == 1;
                let at = dst_pkgs.content_item_count();
                match guarded(|| if use_at { dst_pkgs.create_copied_sub_element_at(&pkg, at) } else { dst_pkgs.create_copied_sub_element(&pkg) }) {
                    Err(msg) => {
                        ctx.violation(format!("cross-version-copy|panic|{}", last_panic_loc()), w(json!({"msg": msg, "package": pkg.item_name()})));
                    }
                    Ok(Err(e)) => {
                        if expected.is_some() {
                            ctx.violation(format!("cross-version-copy|fails|{}", super::c01::err_class(&e)), w(json!({"error": e.to_string(), "package": pkg.item_name()})));
                        }
                    }
                    Ok(Ok(copy)) => match expected {
                        None => ctx.violation("cross-version-copy|copied-although-a-required-part-is-not-permitted", w(json!({"package": pkg.item_name()}))),
                        Some(exp) => {
                            let got = snapshot(&copy);
                            if only_validity {
                                // C07 does not judge what exactly is copied
                            } else if let Some(d) = got.diff(&exp, "") {
                                ctx.violation(format!("cross-version-copy|differs-from-filtered-source|{}", super::c01::diff_class(&d)), w(json!({"diff": d, "package": pkg.item_name()})));
                            }
                            expected_pkgs.items.push(Item::Node(exp));
                        }
                    },
                }
            }
            expected_root.items.push(Item::Node(expected_pkgs));
            if snapshot_model(&src.model) != src_before {
                ctx.violation("cross-version-copy|source-changed", w(json!({})));
            }
            for p in all_invariants(&src.model, &Scope::default()) {
                ctx.violation(format!("cross-version-copy|source-invariant|{}|{}", p.prop, p.key), w(json!({"detail": p.detail})));
            }
            for p in all_invariants(&dst, &Scope::default()) {
                ctx.violation(format!("cross-version-copy|destination-invariant|{}|{}", p.prop, p.key), w(json!({"detail": p.detail})));
            }
            let got_root = snapshot_model(&dst);
            let mut kinds: Vec<&'static str> = validate_tree(&got_root, *vt).iter().map(|x| x.kind).collect();
            kinds.sort();
            kinds.dedup();
            for k in kinds {
                let at = validate_tree(&got_root, *vt).into_iter().find(|x| x.kind == k).map(|x| x.at).unwrap_or_default();
                ctx.violation(format!("cross-version-copy|copy-does-not-validate|{k}"), w(json!({"at": at})));
            }
            // the destination's own text loads strictly in the target version and gives the same tree
            if let Some(f) = dst.files().next() {
                match guarded(|| f.serialize()) {
                    Ok(Ok(t)) => match super::c01::load_classified(t.as_bytes(), true) {
                        Ok(Ok(l)) => {
                            if let Some(d) = snapshot_model(&l.model).diff(&got_root, "") {
                                ctx.violation(format!("cross-version-copy|reload-differs|{}", super::c01::diff_class(&d)), w(json!({"diff": d})));
                            }
                        }
                        Ok(Err(e)) => ctx.violation(format!("cross-version-copy|copy-does-not-load-strictly|{}", e.class), w(json!({"error": e.text}))),
                        Err(msg) => ctx.violation(format!("cross-version-copy|panic-on-reload|{}", last_panic_loc()), w(json!({"msg": msg}))),
                    },
                    _ => ctx.violation("cross-version-copy|serialize-fails", w(json!({}))),
                }
            }
            n
        })
        .sum();
    ctx.count("cross_version_copy_version_pairs", n_pairs);
    ctx.count("cross_version_copy_packages_copied", copies);
    (n_pairs, copies)
}
