//! Properties decided by the histx engine: C03 C04 C05 C06 C10 C11 C12 C13 (each run reports only its own oracles).
use crate::common::*;
use crate::engine::histx::*;
use serde_json::{json, Value};
use std::sync::Mutex;

pub struct Plan {
    pub prop: &'static str,
    pub seeds: Vec<&'static str>,
    /// (profile, depth quick, depth thorough)
    pub runs: Vec<(Profile, usize, usize)>,
    pub stale: bool,
}

pub fn plan(prop: &'static str) -> Plan {
    let all_seeds = SEEDS.to_vec();
    match prop {
        "C03" => Plan { prop, seeds: all_seeds, runs: vec![(Profile::Tree, 2, 3), (Profile::Files, 2, 2), (Profile::All, 1, 2)], stale: true },
        "C04" => Plan { prop, seeds: all_seeds, runs: vec![(Profile::Tree, 2, 3), (Profile::Files, 2, 3), (Profile::All, 1, 2)], stale: false },
        "C05" => Plan { prop, seeds: vec!["refs", "nested", "twofile", "samever", "lenient", "longname"], runs: vec![(Profile::Refs, 2, 3), (Profile::All, 1, 2)], stale: false },
        "C06" => Plan { prop, seeds: vec!["refs", "nested", "twofile", "samever", "longname"], runs: vec![(Profile::Refs, 2, 3), (Profile::Core, 2, 3)], stale: false },
        "C10" => Plan { prop, seeds: vec!["twofile", "samever", "mixedver", "refs", "empty", "lastfile"], runs: vec![(Profile::Files, 2, 3), (Profile::All, 1, 2)], stale: false },
        "C11" => Plan { prop, seeds: all_seeds, runs: vec![(Profile::All, 1, 2), (Profile::Files, 2, 3)], stale: false },
        "C12" => Plan { prop, seeds: all_seeds, runs: vec![(Profile::All, 1, 2), (Profile::Core, 2, 3)], stale: true },
        "C13" => Plan { prop, seeds: vec!["refs", "nested", "twofile", "mixedver", "lenient", "longname"], runs: vec![(Profile::Tree, 2, 3)], stale: false },
        _ => panic!("no histx plan for {prop}"),
    }
}

pub fn run(prop: &'static str, tier: Tier) -> i32 {
    let ctx = Ctx::new(prop, tier);
    let p = plan(prop);
    let oracle_counts: Mutex<std::collections::BTreeMap<String, u64>> = Mutex::new(Default::default());
    let report = |f: &Finding, witness: Value| {
        *oracle_counts.lock().unwrap().entry(f.prop.to_string()).or_insert(0) += 1;
        if f.prop == prop {
            ctx.violation(f.key.clone(), json!({"kind": "history", "history": witness, "detail": f.detail}));
        }
    };
    let mut total = ExploreStats::default();
    let mut per_run = vec![];
    let mut capped = false;
    for (profile, dq, dt) in &p.runs {
        let cfg = Config {
            seeds: p.seeds.clone(),
            profile: *profile,
            depth: tier.pick(*dq, *dt),
            stale_sweep: p.stale,
            read_sweep: prop == "C12",
            wall_cap_s: tier.pick(40.0, 450.0),
            known: all_known_keys(),
        };
        let stats = explore(&cfg, &ctx, &report);
        per_run.push(json!({"profile": format!("{profile:?}"), "depth": cfg.depth, "depth_completed_in_every_seed": stats.depth_completed, "states": stats.states, "transitions": stats.transitions, "wall_cap_hit": stats.capped}));
        capped |= stats.capped;
        total.states += stats.states;
        total.transitions += stats.transitions;
        total.failing_calls += stats.failing_calls;
        total.pruned += stats.pruned;
        total.co_findings += stats.co_findings;
        total.stale_calls += stats.stale_calls;
        for (k, n) in stats.outcomes {
            *total.outcomes.entry(k).or_insert(0) += n;
        }
    }
    let stats = total;
    let mut extra_states = 0u64;
    let mut extra_transitions = 0u64;
    if prop == "C13" {
        let (s, t) = super::c13::duplicate_checks(&ctx, tier);
        extra_states += s;
        extra_transitions += t;
        let (s, t) = super::c13::cross_version_copy(&ctx, tier);
        extra_states += s;
        extra_transitions += t;
    }
    if prop == "C12" {
        let (s, t) = super::c12::value_api_sweep(&ctx, tier);
        extra_states += s;
        extra_transitions += t + super::c12::spec_api_sweep(&ctx);
    }
    ctx.eval(stats.transitions + stats.stale_calls + extra_transitions);
    for k in stats.outcomes.keys() {
        ctx.outcome(k.clone());
    }
    ctx.count("failing_calls_checked", stats.failing_calls);
    ctx.count("transitions_not_expanded_because_of_a_known_finding", stats.pruned);
    ctx.count("stale_handle_and_read_api_calls", stats.stale_calls);
    ctx.count("findings_on_transitions_with_a_known_finding_not_reported_separately", stats.co_findings);
    ctx.sample(json!({"seed": p.seeds[0], "history": ["CreateNamed(4, CAN-CLUSTER, \"a1\")", "Rename(6, \"a10\")"], "note": "arguments are depth-first indexes into the state they are applied to"}));
    ctx.sample(json!({"findings_of_all_properties_seen_by_this_run": *oracle_counts.lock().unwrap()}));
    ctx.assume("stale handles are swept per transition replay (handles held since the seed), not kept in the state key");
    ctx.assume("equal canonical forms (files, tree with membership, path index, referrer lists of both models) have equal futures");
    let cov = json!({
        "states": stats.states + extra_states,
        "transitions": stats.transitions + extra_transitions,
        "traces_validated_against_impl": stats.transitions + extra_transitions,
        "runs": per_run,
        "wall_cap_hit": capped,
        "seeds": p.seeds,
        "exhaustive": !capped,
    });
    ctx.finish("model_checking", cov)
}

pub fn replay(prop: &'static str, v: &Value) -> i32 {
    let h = &v["witness"]["history"];
    println!("witness: seed {} history {} op {}", h["seed"], h["history"], h["op"]);
    println!("the history is replayed by re-running the quick check restricted to this key:");
    let code = run(prop, Tier::Quick);
    code
}
