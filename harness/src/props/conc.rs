//! C15 (no deadlock) and C16 (serializability) — engine schedx: every pair (and selected triples) of catalogue
//! operations on a shared seed model, every schedule within the preemption bound.
use crate::common::invariants::*;
use crate::common::*;
use crate::engine::histx::canon;
use crate::engine::schedx::*;
use autosar_data::*;
use rayon::prelude::*;
use serde_json::{json, Value};
use std::collections::{BTreeMap, BTreeSet, HashSet};
use std::sync::atomic::{AtomicU64, Ordering};
use std::sync::Arc;

pub struct Seed {
    pub model: AutosarModel,
    pub file: ArxmlFile,
    pub pkgs: Element,
    pub p1: Element,
    pub p10: Element,
    pub els: Element,
    pub s: Element,
    pub c: Element,
    pub r: Element,
    pub l2: Element,
    /// a second possible target of the reference
    pub c3: Element,
    /// AR-PACKAGES inside p10 (a destination that lies below the parent of p1) and a package inside it (an element two levels below pkgs)
    pub p10sub: Element,
    pub p10a: Element,
    /// a second reference, dangling (reported by check_references before and after it is given another dangling text)
    pub r2: Element,
}

const V50: AutosarVersion = AutosarVersion::Autosar_00050;

pub fn mk_seed() -> Seed {
    let model = AutosarModel::new();
    let file = model.create_file("a.arxml", V50).unwrap();
    let pkgs = model.root_element().create_sub_element(ElementName::ArPackages).unwrap();
    let p1 = pkgs.create_named_sub_element(ElementName::ArPackage, "p1").unwrap();
    let els = p1.create_sub_element(ElementName::Elements).unwrap();
    let s = els.create_named_sub_element(ElementName::System, "s").unwrap();
    let c = els.create_named_sub_element(ElementName::CanCluster, "c").unwrap();
    let r = s.create_sub_element(ElementName::FibexElements).unwrap().create_sub_element(ElementName::FibexElementRefConditional).unwrap().create_sub_element(ElementName::FibexElementRef).unwrap();
    r.set_reference_target(&c).unwrap();
    let p10 = pkgs.create_named_sub_element(ElementName::ArPackage, "p10").unwrap();
    p1.set_attribute_string(AttributeName::Uuid, "u0").unwrap();
    let l2 = p10.create_sub_element(ElementName::Desc).unwrap().create_sub_element(ElementName::L2).unwrap();
    l2.set_attribute(AttributeName::L, EnumItem::En).unwrap();
    l2.insert_character_content_item("text", 0).unwrap();
    let c3 = els.create_named_sub_element(ElementName::CanCluster, "c3").unwrap();
    let r2 = s.get_sub_element(ElementName::FibexElements).unwrap().create_sub_element(ElementName::FibexElementRefConditional).unwrap().create_sub_element(ElementName::FibexElementRef).unwrap();
    r2.set_attribute(AttributeName::Dest, EnumItem::CanCluster).unwrap();
    r2.set_character_data("/nope").unwrap();
    let p10sub = p10.create_sub_element(ElementName::ArPackages).unwrap();
    let p10a = p10sub.create_named_sub_element(ElementName::ArPackage, "p10a").unwrap();
    Seed { model, file, pkgs, p1, p10, els, s, c, r, l2, c3, p10sub, p10a, r2 }
}

fn doc(pkg: &str) -> String {
    format!(
        "<?xml version=\"1.0\" encoding=\"utf-8\"?><AUTOSAR {}><AR-PACKAGES><AR-PACKAGE><SHORT-NAME>{pkg}</SHORT-NAME><ELEMENTS><CAN-CLUSTER><SHORT-NAME>x</SHORT-NAME></CAN-CLUSTER></ELEMENTS></AR-PACKAGE></AR-PACKAGES></AUTOSAR>",
        crate::common::tree::header_attrs(V50)
    )
}

fn res<T>(r: Result<T, AutosarDataError>) -> String {
    match r {
        Ok(_) => "Ok".into(),
        Err(e) => format!("Err({})", super::c01::err_class(&e)),
    }
}
fn resd<T: std::fmt::Debug>(r: Result<T, AutosarDataError>) -> String {
    match r {
        Ok(v) => format!("Ok({v:?})"),
        Err(e) => format!("Err({})", super::c01::err_class(&e)),
    }
}
fn hash(s: &str) -> String {
    format!("{}#{:04x}", s.len(), crate::engine::histx::hash_str(s) & 0xffff)
}

pub struct CatOp {
    pub name: &'static str,
    pub reader: bool,
    pub f: OpFn<Seed>,
}

macro_rules! op {
    ($v:ident, $name:expr, $reader:expr, $f:expr) => {
        $v.push(CatOp { name: $name, reader: $reader, f: Arc::new($f) })
    };
}

pub fn catalogue() -> Vec<CatOp> {
    let mut v: Vec<CatOp> = vec![];
    // readers
    op!(v, "file.serialize", true, |s: &Seed| match s.file.serialize() {
        Ok(t) => hash(&t),
        Err(e) => format!("Err({})", super::c01::err_class(&e)),
    });
    op!(v, "root.serialize", true, |s: &Seed| hash(&s.model.root_element().serialize()));
    op!(v, "c.path", true, |s: &Seed| resd(s.c.path()));
    // xml_path cannot fail; it reports a locked ancestor inside the text, which is its form of the parent-locked error
    op!(v, "c.xml_path", true, |s: &Seed| {
        let p = s.c.xml_path();
        if p.contains("(LOCKED)") {
            PEL.to_string()
        } else {
            p
        }
    });
    op!(v, "r.model", true, |s: &Seed| res(s.r.model()));
    op!(v, "c.file_membership", true, |s: &Seed| resd(s.c.file_membership().map(|(l, f)| (l, f.len()))));
    op!(v, "c.min_version", true, |s: &Seed| resd(s.c.min_version()));
    op!(v, "c.position", true, |s: &Seed| format!("{:?}", s.c.position()));
    op!(v, "p1.item_name", true, |s: &Seed| format!("{:?}", s.p1.item_name()));
    op!(v, "get_element_by_path(/p1/c)", true, |s: &Seed| format!("{:?}", s.model.get_element_by_path("/p1/c").map(|e| e.element_name())));
    op!(v, "get_references_to(/p1/c)", true, |s: &Seed| format!("{}", s.model.get_references_to("/p1/c").len()));
    op!(v, "check_references", true, |s: &Seed| format!("{}", s.model.check_references().len()));
    op!(v, "r.get_reference_target", true, |s: &Seed| resd(s.r.get_reference_target().map(|e| e.element_name())));
    op!(v, "els.list_valid_sub_elements", true, |s: &Seed| format!("{}", s.els.list_valid_sub_elements().len()));
    op!(v, "file.check_version_compatibility", true, |s: &Seed| format!("{}", s.file.check_version_compatibility(AutosarVersion::Autosar_4_0_1).0.len()));
    op!(v, "model.duplicate", true, |s: &Seed| match s.model.duplicate() {
        Ok(d) => hash(&canon(&d).tree),
        Err(e) => format!("Err({})", super::c01::err_class(&e)),
    });
    op!(v, "model.elements_dfs.count", true, |s: &Seed| format!("{}", s.model.elements_dfs().count()));
    op!(v, "c.comment", true, |s: &Seed| format!("{:?}", s.c.comment()));
    op!(v, "p1.attribute_value(UUID)", true, |s: &Seed| format!("{:?}", s.p1.attribute_value(AttributeName::Uuid).map(|v| v.to_string())));
    op!(v, "els.content_item_count", true, |s: &Seed| format!("{}", s.els.content_item_count()));
    op!(v, "els.sub_elements.count", true, |s: &Seed| format!("{}", s.els.sub_elements().count()));
    op!(v, "model.files.count", true, |s: &Seed| format!("{}", s.model.files().count()));
    op!(v, "l2.content.count", true, |s: &Seed| format!("{}", s.l2.content().count()));
    // writers
    op!(v, "p1.remove_attribute(UUID)", false, |s: &Seed| format!("{}", s.p1.remove_attribute(AttributeName::Uuid)));
    op!(v, "p10.get_or_create(ELEMENTS)", false, |s: &Seed| res(s.p10.get_or_create_sub_element(ElementName::Elements)));
    op!(v, "els.get_or_create_named(CAN-CLUSTER,c2)", false, |s: &Seed| res(s.els.get_or_create_named_sub_element(ElementName::CanCluster, "c2")));
    op!(v, "l2.set_character_data(x)", false, |s: &Seed| res(s.l2.set_character_data("x")));
    op!(v, "l2.create_at(TT,0)", false, |s: &Seed| res(s.l2.create_sub_element_at(ElementName::Tt, 0)));
    op!(v, "l2.insert_text(1)", false, |s: &Seed| res(s.l2.insert_character_content_item("more", 1)));
    op!(v, "l2.remove_text(0)", false, |s: &Seed| res(s.l2.remove_character_content_item(0)));
    op!(v, "file.set_filename(b.arxml)", false, |s: &Seed| res(s.file.set_filename("b.arxml")));
    op!(v, "p10.create_at(ELEMENTS,2)", false, |s: &Seed| res(s.p10.create_sub_element_at(ElementName::Elements, 2)));
    op!(v, "els.create_named(CAN-CLUSTER,n)", false, |s: &Seed| res(s.els.create_named_sub_element(ElementName::CanCluster, "n")));
    op!(v, "els.create_named(CAN-CLUSTER,c2)", false, |s: &Seed| res(s.els.create_named_sub_element(ElementName::CanCluster, "c2")));
    op!(v, "pkgs.create_named(AR-PACKAGE,p2)", false, |s: &Seed| res(s.pkgs.create_named_sub_element(ElementName::ArPackage, "p2")));
    op!(v, "p10.create(ELEMENTS)", false, |s: &Seed| res(s.p10.create_sub_element(ElementName::Elements)));
    op!(v, "els.copy(c)", false, |s: &Seed| resd(s.els.create_copied_sub_element(&s.c).map(|e| e.item_name())));
    op!(v, "p10.move_here(els)", false, |s: &Seed| res(s.p10.move_element_here(&s.els)));
    op!(v, "p10sub.move_here(p1)", false, |s: &Seed| res(s.p10sub.move_element_here(&s.p1)));
    op!(v, "pkgs.move_here(p10a)", false, |s: &Seed| res(s.pkgs.move_element_here(&s.p10a)));
    op!(v, "r.set_reference_target(c3)", false, |s: &Seed| res(s.r.set_reference_target(&s.c3)));
    op!(v, "els.remove(c)", false, |s: &Seed| res(s.els.remove_sub_element(s.c.clone())));
    op!(v, "pkgs.remove(p1)", false, |s: &Seed| res(s.pkgs.remove_sub_element(s.p1.clone())));
    op!(v, "c.set_item_name(c2)", false, |s: &Seed| res(s.c.set_item_name("c2")));
    op!(v, "p1.set_item_name(p2)", false, |s: &Seed| res(s.p1.set_item_name("p2")));
    op!(v, "r.set_reference_target(c)", false, |s: &Seed| res(s.r.set_reference_target(&s.c)));
    op!(v, "r.set_character_data(/p1/x)", false, |s: &Seed| res(s.r.set_character_data("/p1/x")));
    op!(v, "r2.set_character_data(/nope2)", false, |s: &Seed| res(s.r2.set_character_data("/nope2")));
    // renaming through the SHORT-NAME element itself (it reads the path of its parent while holding on to itself)
    op!(v, "c.SHORT-NAME.set_character_data(c9)", false, |s: &Seed| match s.c.get_sub_element(ElementName::ShortName) {
        Some(sn) => res(sn.set_character_data("c9")),
        None => "no SHORT-NAME".to_string(),
    });
    op!(v, "r.remove_character_data", false, |s: &Seed| res(s.r.remove_character_data()));
    op!(v, "c.set_comment", false, |s: &Seed| {
        s.c.set_comment(Some("x".into()));
        "()".into()
    });
    op!(v, "p1.set_attribute(UUID)", false, |s: &Seed| res(s.p1.set_attribute_string(AttributeName::Uuid, "u")));
    op!(v, "model.sort", false, |s: &Seed| {
        s.model.sort();
        "()".into()
    });
    op!(v, "create_file(b)", false, |s: &Seed| res(s.model.create_file("b.arxml", V50)));
    op!(v, "remove_file(a)", false, |s: &Seed| {
        s.model.remove_file(&s.file);
        "()".into()
    });
    op!(v, "load_buffer(b: package q)", false, |s: &Seed| res(s.model.load_buffer(doc("q").as_bytes(), "b.arxml", true)));
    op!(v, "load_buffer(d: package q2)", false, |s: &Seed| res(s.model.load_buffer(doc("q2").as_bytes(), "d.arxml", true)));
    op!(v, "file.set_version(00049)", false, |s: &Seed| res(s.file.set_version(AutosarVersion::Autosar_00049)));
    op!(v, "c.remove_from_file(a)", false, |s: &Seed| res(s.c.remove_from_file(&s.file)));
    v
}

const PEL: &str = "Err(ParentElementLocked)";

/// outcomes of all sequential executions of the ops: every order, every subset of ops replaced by "failed with ParentElementLocked, no effect"
fn sequential_outcomes(ops: &[&CatOp]) -> HashSet<(Vec<String>, String)> {
    let n = ops.len();
    let mut out = HashSet::new();
    let mut orders: Vec<Vec<usize>> = vec![vec![]];
    for _ in 0..n {
        let mut next = vec![];
        for o in &orders {
            for i in 0..n {
                if !o.contains(&i) {
                    let mut p = o.clone();
                    p.push(i);
                    next.push(p);
                }
            }
        }
        orders = next;
    }
    for order in orders {
        for dropmask in 0..(1u32 << n) {
            let sd = mk_seed();
            let mut results = vec![PEL.to_string(); n];
            for &i in &order {
                if dropmask & (1 << i) != 0 {
                    continue;
                }
                results[i] = (ops[i].f)(&sd);
            }
            // an op that genuinely returns the documented error in a sequential run does not occur (C12), so PEL marks dropped ops
            out.insert((results, final_form(&sd)));
        }
    }
    out
}

fn final_form(s: &Seed) -> String {
    canon(&s.model).whole()
}

fn deadlock_shape(b: &[Blocked]) -> String {
    let mut parts: Vec<String> = b
        .iter()
        .map(|x| format!("{}:{:?}/{:?}{}{}", x.class, x.mode, x.kind, if x.nested_read { ":holds-read-on-it" } else { "" }, if x.announced { ":announced" } else { "" }))
        .collect();
    parts.sort();
    parts.join(" + ")
}

pub struct PairResult {
    pub names: Vec<&'static str>,
    pub bound_completed: usize,
    pub executions: u64,
    pub points: u64,
    pub outcomes: usize,
    pub c15: Vec<(String, Value)>,
    pub c16: Vec<(String, Value)>,
    pub errors: Vec<String>,
    pub wall_s: f64,
}

pub fn check_tuple(ops: &[&CatOp], max_bound: usize, budget_execs: u64) -> PairResult {
    let names: Vec<&'static str> = ops.iter().map(|o| o.name).collect();
    let label = names.join(" || ");
    let fns: Vec<OpFn<Seed>> = ops.iter().map(|o| o.f.clone()).collect();
    let seqs = sequential_outcomes(ops);
    let seq_results: HashSet<&Vec<String>> = seqs.iter().map(|(r, _)| r).collect();
    let seq_finals: HashSet<&String> = seqs.iter().map(|(_, f)| f).collect();
    // invariant keys broken by the sequential executions (every order, every prefix)
    let mut seq_invariant_keys: HashSet<String> = HashSet::new();
    {
        let n = ops.len();
        let mut orders: Vec<Vec<usize>> = vec![vec![]];
        for _ in 0..n {
            orders = orders.iter().flat_map(|o| (0..n).filter(|i| !o.contains(i)).map(|i| { let mut p = o.clone(); p.push(i); p }).collect::<Vec<_>>()).collect();
        }
        for order in orders {
            let sd = mk_seed();
            for &i in &order {
                let _ = (ops[i].f)(&sd);
                for p in all_invariants(&sd.model, &Scope::default()) {
                    seq_invariant_keys.insert(format!("{}|{}", p.prop, p.key));
                }
            }
        }
    }
    let t0 = std::time::Instant::now();
    let mut pr = PairResult { names: names.clone(), bound_completed: 0, executions: 0, points: 0, outcomes: 0, c15: vec![], c16: vec![], errors: vec![], wall_s: 0.0 };
    let mut seen_c15: BTreeSet<String> = BTreeSet::new();
    let mut seen_c16: BTreeSet<String> = BTreeSet::new();
    for bound in 0..=max_bound {
        let ex = explore(&mk_seed, &fns, bound, &final_form, budget_execs);
        pr.executions += ex.executions;
        pr.points += ex.points;
        pr.outcomes = pr.outcomes.max(ex.outcomes.len());
        pr.errors.extend(ex.errors.iter().map(|e| format!("{label}: {e}")));
        if ex.horizon_hits > 0 {
            pr.errors.push(format!("{label}: horizon of scheduling steps reached"));
        }
        for (schedule, blocked, log) in &ex.deadlocks {
            let shape = deadlock_shape(blocked);
            let key = format!("deadlock|{label}|{shape}");
            if seen_c15.insert(key.clone()) {
                pr.c15.push((
                    key,
                    json!({"kind": "schedule", "ops": names, "preemption_bound": bound, "schedule": schedule,
                           "blocked": blocked.iter().map(|b| format!("T{} waits for {:?}/{:?} on {} at {} ({})", b.tid, b.mode, b.kind, b.class, b.site, b.holders)).collect::<Vec<_>>(),
                           "lock_steps": log.iter().rev().take(12).rev().collect::<Vec<_>>()}),
                ));
            }
        }
        for ((results, fin), schedule) in &ex.outcomes {
            if seqs.contains(&(results.clone(), fin.clone())) {
                continue;
            }
            let class = if !seq_results.contains(results) {
                "results-of-no-sequential-order"
            } else if !seq_finals.contains(fin) {
                "final-state-of-no-sequential-order"
            } else {
                "results-and-final-state-from-different-orders"
            };
            let key = format!("not-serializable|{label}|{class}");
            if seen_c16.insert(key.clone()) {
                // for a final state that no order produces: the lines in which it differs from the closest sequential final state
                let diff: Vec<String> = if class == "final-state-of-no-sequential-order" {
                    let obs: Vec<&str> = fin.lines().collect();
                    seq_finals
                        .iter()
                        .map(|sf| {
                            let sl: Vec<&str> = sf.lines().collect();
                            let mut d: Vec<String> = obs.iter().filter(|l| !sl.contains(l)).map(|l| format!("+ {l}")).collect();
                            d.extend(sl.iter().filter(|l| !obs.contains(l)).map(|l| format!("- {l}")));
                            d
                        })
                        .min_by_key(|d| d.len())
                        .unwrap_or_default()
                        .into_iter()
                        .take(20)
                        .collect()
                } else {
                    vec![]
                };
                pr.c16.push((key, json!({"kind": "schedule", "ops": names, "preemption_bound": bound, "schedule": schedule, "results": results, "sequential_results": seq_results.iter().take(6).collect::<Vec<_>>(), "final_state_vs_closest_sequential_final_state": diff})));
            }
        }
        // structural and index invariants of the final state: checked on a replay of every outcome that is otherwise
        // serializable (a final state that no sequential order produces is already reported above)
        for ((results, fin), schedule) in ex.outcomes.iter().filter(|(k, _)| seqs.contains(k)).take(8) {
            let _ = fin;
            let seed = Arc::new(mk_seed());
            if run(seed.clone(), &fns, schedule).is_ok() {
                for p in all_invariants(&seed.model, &Scope::default()) {
                    // an invariant that a sequential execution of the same operations breaks as well is not a matter of concurrency
                    // (it belongs to the sequential checks of its property)
                    if seq_invariant_keys.contains(&format!("{}|{}", p.prop, p.key)) {
                        continue;
                    }
                    let key = format!("invariant-broken-in-serializable-outcome|{label}|{}|{}", p.prop, p.key);
                    if seen_c16.insert(key.clone()) {
                        pr.c16.push((key, json!({"kind": "schedule", "ops": names, "schedule": schedule, "results": results, "detail": p.detail})));
                    }
                }
            }
        }
        if ex.capped {
            break;
        }
        pr.bound_completed = bound;
    }
    // every reported schedule is replayed twice and must behave identically before it is believed
    let mut validate = |list: &Vec<(String, Value)>, errors: &mut Vec<String>| {
        for (key, w) in list.iter().take(6) {
            let schedule: Vec<usize> = w["schedule"].as_array().map(|a| a.iter().filter_map(|x| x.as_u64().map(|n| n as usize)).collect()).unwrap_or_default();
            let mut obs = vec![];
            for _ in 0..2 {
                let seed = Arc::new(mk_seed());
                match run(seed.clone(), &fns, &schedule) {
                    Ok(r) => obs.push((matches!(r.outcome, ExecOutcome::Deadlock(_)), r.results.clone(), r.log.clone())),
                    Err(e) => errors.push(format!("replay of {key} diverged: {e}")),
                }
            }
            if obs.len() == 2 && obs[0] != obs[1] {
                errors.push(format!("nondeterministic replay of {key}"));
            }
        }
    };
    let mut errs = vec![];
    validate(&pr.c15, &mut errs);
    validate(&pr.c16, &mut errs);
    pr.errors.extend(errs);
    pr.wall_s = t0.elapsed().as_secs_f64();
    pr
}

fn triples(cat: &[CatOp]) -> Vec<[usize; 3]> {
    let idx = |n: &str| cat.iter().position(|o| o.name == n).unwrap();
    vec![
        [idx("file.serialize"), idx("c.set_item_name(c2)"), idx("els.create_named(CAN-CLUSTER,n)")],
        [idx("load_buffer(b: package q)"), idx("load_buffer(d: package q2)"), idx("file.serialize")],
        [idx("check_references"), idx("els.remove(c)"), idx("r.set_character_data(/p1/x)")],
        [idx("c.path"), idx("p1.set_item_name(p2)"), idx("c.set_item_name(c2)")],
        [idx("els.create_named(CAN-CLUSTER,n)"), idx("els.create_named(CAN-CLUSTER,c2)"), idx("c.set_item_name(c2)")],
        [idx("create_file(b)"), idx("remove_file(a)"), idx("c.min_version")],
    ]
}

pub fn run_prop(prop: &'static str, tier: Tier) -> i32 {
    let ctx = Ctx::new(prop, tier);
    // bind the lock model to parking_lot before trusting any schedule
    for d in lock_model_conformance() {
        ctx.machinery_error(format!("lock model does not conform to parking_lot: {d}"));
    }
    ctx.count("lock_model_conformance_situations", 14);
    let cat = catalogue();
    // what every operation does when it runs alone on the seed (an operation that always fails would make its tuples vacuous)
    let alone: Vec<String> = cat.iter().map(|o| format!("{} -> {}", o.name, { let r = (o.f)(&mk_seed()); if r.len() > 40 { format!("{}...", &r[..40]) } else { r } })).collect();
    ctx.sample(json!({"catalogue_operations_run_alone_on_the_seed": alone}));
    let mut tuples: Vec<Vec<usize>> = vec![];
    for a in 0..cat.len() {
        for b in a..cat.len() {
            if cat[a].reader && cat[b].reader {
                continue;
            }
            tuples.push(vec![a, b]);
        }
    }
    let n_pairs = tuples.len();
    for t in triples(&cat) {
        tuples.push(t.to_vec());
    }
    let max_bound = tier.pick(1usize, 2usize);
    let budget: u64 = tier.pick(1_500, 60_000);
    let execs = AtomicU64::new(0);
    let points = AtomicU64::new(0);
    let results: Vec<PairResult> = tuples
        .par_iter()
        .map(|t| {
            let ops: Vec<&CatOp> = t.iter().map(|i| &cat[*i]).collect();
            let b = if t.len() == 3 { max_bound.min(1) } else { max_bound };
            let r = check_tuple(&ops, b, budget);
            execs.fetch_add(r.executions, Ordering::Relaxed);
            points.fetch_add(r.points, Ordering::Relaxed);
            r
        })
        .collect();
    let mut min_bound = usize::MAX;
    let mut outcome_hist: BTreeMap<usize, u64> = BTreeMap::new();
    let mut incomplete = vec![];
    for r in &results {
        min_bound = min_bound.min(r.bound_completed);
        *outcome_hist.entry(r.outcomes).or_insert(0) += 1;
        let target = if r.names.len() == 3 { max_bound.min(1) } else { max_bound };
        if r.bound_completed < target {
            incomplete.push(json!({"ops": r.names, "bound_completed": r.bound_completed}));
        }
        for e in &r.errors {
            ctx.machinery_error(e.clone());
        }
        for (_, w) in r.c15.iter().chain(r.c16.iter()) {
            if w["results"].to_string().contains("verif: lock model admitted") {
                ctx.machinery_error(format!("{}: the lock model admitted an acquisition that the real lock refused", r.names.join(" || ")));
            }
        }
        let list = if prop == "C15" { &r.c15 } else { &r.c16 };
        for (k, w) in list {
            ctx.violation(k.clone(), w.clone());
        }
        ctx.outcome(format!("{}:{}", r.names.join("||"), r.outcomes));
    }
    let mut slow: Vec<(f64, String, u64, u64)> = results.iter().map(|r| (r.wall_s, r.names.join(" || "), r.executions, r.points)).collect();
    slow.sort_by(|a, b| b.0.partial_cmp(&a.0).unwrap());
    let slowest: Vec<Value> = slow.iter().take(8).map(|(w, n, e, p)| json!({"tuple": n, "wall_s": w, "executions": e, "points": p})).collect();
    let e = execs.load(Ordering::Relaxed);
    ctx.eval(e);
    ctx.count("pairs", n_pairs as u64);
    ctx.count("triples", (tuples.len() - n_pairs) as u64);
    ctx.count("executions", e);
    ctx.count("scheduling_points", points.load(Ordering::Relaxed));
    ctx.sample(json!({"ops": ["file.serialize", "c.set_comment"], "schedule": [0, 0, 1, 0], "note": "a schedule is the list of choices among the enabled lock transitions; 0 = keep the running thread"}));
    ctx.assume("scheduling points are the crate's lock acquisitions (all shared state is behind these locks; no unsafe, atomics or static mut in the crate)");
    ctx.assume("lock model: parking_lot 0.12 admission rules (reader blocked by an announced writer even if the thread already holds a read lock); the real lock must admit whatever the model admits (checked at every step)");
    ctx.assume("sequential reference: the same calls run one after the other on a fresh seed in every order, calls that returned ParentElementLocked dropped");
    let cov = json!({
        "states": points.load(Ordering::Relaxed),
        "transitions": points.load(Ordering::Relaxed),
        "traces_validated_against_impl": e,
        "preemption_bound_target": max_bound,
        "preemption_bound_completed_for_every_tuple": if min_bound == usize::MAX { 0 } else { min_bound },
        "tuples_not_completed_to_target": incomplete,
        "distinct_outcomes_per_tuple_histogram": outcome_hist,
        "slowest_tuples": slowest,
        "exhaustive": incomplete_is_empty(&results, max_bound),
    });
    ctx.finish("model_checking", cov)
}

fn incomplete_is_empty(results: &[PairResult], max_bound: usize) -> bool {
    results.iter().all(|r| r.bound_completed >= if r.names.len() == 3 { max_bound.min(1) } else { max_bound })
}

pub fn replay(prop: &'static str, v: &Value) -> i32 {
    let w = &v["witness"];
    let names: Vec<String> = w["ops"].as_array().map(|a| a.iter().filter_map(|x| x.as_str().map(|s| s.to_string())).collect()).unwrap_or_default();
    let schedule: Vec<usize> = w["schedule"].as_array().map(|a| a.iter().filter_map(|x| x.as_u64().map(|n| n as usize)).collect()).unwrap_or_default();
    let cat = catalogue();
    let fns: Vec<OpFn<Seed>> = names.iter().filter_map(|n| cat.iter().find(|o| o.name == n).map(|o| o.f.clone())).collect();
    let mut logs = vec![];
    for round in 0..2 {
        let seed = Arc::new(mk_seed());
        match run(seed.clone(), &fns, &schedule) {
            Ok(r) => {
                println!("replay {round}: outcome {:?} results {:?}", match &r.outcome { ExecOutcome::Done => "done".to_string(), ExecOutcome::Deadlock(b) => format!("DEADLOCK {}", b.len()), ExecOutcome::Horizon => "horizon".into() }, r.results);
                logs.push(r.log);
            }
            Err(e) => {
                println!("replay diverged: {e}");
                return 2;
            }
        }
    }
    if logs[0] != logs[1] {
        println!("MACHINERY: the same schedule gave two different lock-step logs");
        return 2;
    }
    for l in &logs[0] {
        println!("  {l}");
    }
    let _ = prop;
    1
}

pub fn bench() -> i32 {
    let cat = catalogue();
    let a = cat.iter().find(|o| o.name == "c.set_comment").unwrap();
    let b = cat.iter().find(|o| o.name == "c.path").unwrap();
    let fns: Vec<OpFn<Seed>> = vec![a.f.clone(), b.f.clone()];
    let t0 = std::time::Instant::now();
    let mut points = 0;
    for _ in 0..2000 {
        let seed = Arc::new(mk_seed());
        let r = run(seed.clone(), &fns, &[]).unwrap();
        points += r.choices.len();
    }
    println!("2000 executions run(): {:?}, {} points", t0.elapsed(), points);
    let t0 = std::time::Instant::now();
    for _ in 0..2000 {
        let seed = mk_seed();
        std::hint::black_box(final_form(&seed));
    }
    println!("2000 x mk_seed+final_form: {:?}", t0.elapsed());
    let t0 = std::time::Instant::now();
    for _ in 0..2000 {
        let h: Vec<_> = (0..2).map(|_| std::thread::Builder::new().stack_size(1 << 20).spawn(|| {}).unwrap()).collect();
        for x in h {
            x.join().unwrap();
        }
    }
    println!("2000 x spawn+join 2 threads: {:?}", t0.elapsed());
    0
}
