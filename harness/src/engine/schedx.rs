//! schedx — stateless controlled-scheduler exploration of real threads at lock-acquisition granularity.
//! Each execution runs 2-3 OS threads, one at a time; every lock acquisition of the crate (through the verif
//! lock shim) is a scheduling point. A model of parking_lot's RwLock admission rules decides which pending
//! acquisitions are enabled; the explorer enumerates all schedules up to a preemption bound by prefix replay.
use autosar_data::verif_hooks::{set_thread_hook, Kind, LockHook, Mode, Req};
use std::collections::HashMap;
use std::sync::atomic::{AtomicBool, Ordering};
use std::sync::{Arc, Mutex};
use std::thread::Thread;

// ------------------------------------------------------------------------------------------------ lock model

#[derive(Default, Debug, Clone)]
pub struct LockSt {
    pub writer: Option<usize>,
    pub readers: Vec<usize>,
    /// a writer that has announced itself and waits for the readers to leave; blocks new readers
    pub pending: Option<usize>,
}

#[derive(Debug, Clone, Copy, PartialEq, Eq)]
pub enum Tr {
    Acquire,
    Announce,
    /// try fails / timed acquisition times out
    Refuse,
}

#[derive(Debug, Clone)]
pub struct Pending {
    pub req: Req,
    pub announced: bool,
}

/// parking_lot 0.12 admission rules (raw_rwlock.rs): a reader is admitted iff there is no writer and no parked/announced
/// writer (a thread that already holds a read lock is not exempt); a writer first announces itself (possible iff no writer
/// and no other announced writer) and then waits for the readers; try_write needs the lock completely free; timed variants
/// may give up whenever they are blocked.
pub fn enabled(l: &LockSt, p: &Pending, tid: usize) -> Vec<Tr> {
    let no_writer = l.writer.is_none();
    match (p.req.mode, p.req.kind) {
        (Mode::Read, Kind::Block) => {
            if no_writer && l.pending.is_none() {
                vec![Tr::Acquire]
            } else {
                vec![]
            }
        }
        (Mode::Read, Kind::Try) | (Mode::Read, Kind::Timed) => {
            if no_writer && l.pending.is_none() {
                vec![Tr::Acquire]
            } else {
                vec![Tr::Refuse]
            }
        }
        (Mode::Write, Kind::Try) => {
            if no_writer && l.pending.is_none() && l.readers.is_empty() {
                vec![Tr::Acquire]
            } else {
                vec![Tr::Refuse]
            }
        }
        (Mode::Write, k) => {
            let mut v = vec![];
            if p.announced {
                debug_assert_eq!(l.pending, Some(tid));
                if l.readers.is_empty() {
                    v.push(Tr::Acquire)
                } else if k == Kind::Timed {
                    v.push(Tr::Refuse)
                }
            } else if no_writer && l.pending.is_none() {
                if l.readers.is_empty() {
                    v.push(Tr::Acquire)
                } else {
                    v.push(Tr::Announce)
                }
            } else if k == Kind::Timed {
                v.push(Tr::Refuse)
            }
            v
        }
    }
}

// ------------------------------------------------------------------------------------------------ scheduler
//
// Baton passing: exactly one thread runs at a time. A thread that reaches a scheduling point (or finishes) holds the
// baton and performs the scheduling step itself: if the choice is to let itself continue, no context switch happens at
// all; otherwise it wakes the chosen thread and parks. The driver only starts the first thread and joins.

#[derive(Debug, Clone, Copy, PartialEq)]
enum TState {
    Running,
    AtPoint,
    Finished,
}

struct St {
    tstate: Vec<TState>,
    pend: Vec<Option<Pending>>,
    grant: Vec<Option<bool>>,
    locks: HashMap<usize, LockSt>,
    log: Vec<String>,
    threads: Vec<Option<Thread>>,
    running: Option<usize>,
    prefix: Vec<usize>,
    choices: Vec<usize>,
    nopts: Vec<usize>,
    preempt_cost: Vec<usize>,
    outcome: Option<ExecOutcome>,
    error: Option<String>,
}

struct Shared {
    st: Mutex<St>,
    driver: Thread,
    /// after a deadlock (or horizon) every further acquisition is refused so that the threads unwind and end
    abort: AtomicBool,
}

struct Hook {
    sh: Arc<Shared>,
    tid: usize,
}

#[derive(Debug, Clone)]
pub struct Blocked {
    pub tid: usize,
    pub class: String,
    pub mode: Mode,
    pub kind: Kind,
    pub announced: bool,
    pub site: String,
    /// the blocked thread itself holds a read lock on the lock it waits for
    pub nested_read: bool,
    pub holders: String,
}

#[derive(Debug)]
pub enum ExecOutcome {
    Done,
    Deadlock(Vec<Blocked>),
    Horizon,
}

pub struct RunResult {
    pub outcome: ExecOutcome,
    pub choices: Vec<usize>,
    pub nopts: Vec<usize>,
    /// 1 if choosing a non-default option at this point is a preemption (the running thread was still enabled)
    pub preempt_cost: Vec<usize>,
    pub results: Vec<String>,
    pub log: Vec<String>,
}

pub type OpFn<S> = Arc<dyn Fn(&S) -> String + Send + Sync>;

fn short_class(c: &str) -> String {
    c.rsplit("::").next().unwrap_or(c).to_string()
}
fn short_site(req: &Req) -> String {
    let f = req.site.file();
    format!("{}:{}", f.rsplit('/').next().unwrap_or(f), req.site.line())
}

const HORIZON: usize = 20_000;

impl Shared {
    /// end the controlled part of the execution: refuse everything from now on and wake every waiting thread
    fn abort_all(&self, st: &mut St) -> Vec<Thread> {
        self.abort.store(true, Ordering::SeqCst);
        let mut wake = vec![];
        for t in 0..st.tstate.len() {
            if st.tstate[t] == TState::AtPoint {
                if let Some(p) = st.pend[t].take() {
                    if let Some(l) = st.locks.get_mut(&p.req.addr) {
                        if l.pending == Some(t) {
                            l.pending = None;
                        }
                    }
                }
                st.grant[t] = Some(false);
                st.tstate[t] = TState::Running;
                if let Some(th) = &st.threads[t] {
                    wake.push(th.clone());
                }
            }
        }
        wake
    }

    /// The scheduling step. Called by the thread that holds the baton (it is AtPoint or Finished; nobody is Running).
    /// Grants exactly one thread (or ends the execution); returns the threads to unpark.
    fn schedule(&self, st: &mut St) -> Vec<Thread> {
        let n = st.tstate.len();
        loop {
            if st.tstate.iter().all(|t| *t == TState::Finished) {
                st.outcome = Some(ExecOutcome::Done);
                return vec![self.driver.clone()];
            }
            if st.choices.len() >= HORIZON {
                st.outcome = Some(ExecOutcome::Horizon);
                return self.abort_all(st);
            }
            // enabled transitions in canonical order: the running thread first, then ascending ids; timeouts last
            let mut order: Vec<usize> = (0..n).collect();
            if let Some(r) = st.running {
                order.retain(|t| *t != r);
                order.insert(0, r);
            }
            let mut opts: Vec<(usize, Tr)> = vec![];
            let mut refusals: Vec<(usize, Tr)> = vec![];
            for &t in &order {
                if st.tstate[t] != TState::AtPoint {
                    continue;
                }
                match st.pend[t].clone() {
                    None => opts.push((t, Tr::Acquire)),
                    Some(p) => {
                        let l = st.locks.entry(p.req.addr).or_default().clone();
                        for tr in enabled(&l, &p, t) {
                            // a failing try is the thread's own deterministic step; a timeout of a blocked timed waiter is an
                            // environment choice that is only taken by default when nothing else can run
                            if tr == Tr::Refuse && p.req.kind == Kind::Timed {
                                refusals.push((t, tr));
                            } else {
                                opts.push((t, tr));
                            }
                        }
                    }
                }
            }
            let progress_options = opts.len();
            opts.extend(refusals);
            if opts.is_empty() {
                let mut blocked = vec![];
                for t in 0..n {
                    if st.tstate[t] == TState::AtPoint {
                        if let Some(p) = &st.pend[t] {
                            let l = st.locks.get(&p.req.addr).cloned().unwrap_or_default();
                            blocked.push(Blocked {
                                tid: t,
                                class: short_class(p.req.class),
                                mode: p.req.mode,
                                kind: p.req.kind,
                                announced: p.announced,
                                site: short_site(&p.req),
                                nested_read: l.readers.contains(&t),
                                holders: format!("writer={:?} readers={:?} announced={:?}", l.writer, l.readers, l.pending),
                            });
                        }
                    }
                }
                st.outcome = Some(ExecOutcome::Deadlock(blocked));
                return self.abort_all(st);
            }
            // switching away from the running thread is a preemption only if it could have made progress itself
            let running_enabled = st.running.is_some_and(|r| opts[..progress_options].iter().any(|(t, _)| *t == r));
            let k = st.choices.len();
            let c = if k < st.prefix.len() {
                if st.prefix[k] >= opts.len() {
                    st.error = Some(format!("replay divergence at point {k}: choice {} of {} options", st.prefix[k], opts.len()));
                    st.outcome = Some(ExecOutcome::Horizon);
                    return self.abort_all(st);
                }
                st.prefix[k]
            } else {
                0
            };
            st.choices.push(c);
            st.nopts.push(opts.len());
            st.preempt_cost.push(usize::from(running_enabled));
            let (t, tr) = opts[c];
            st.running = Some(t);
            match st.pend[t].clone() {
                None => st.grant[t] = Some(true),
                Some(p) => {
                    if st.log.len() < 4000 {
                        st.log.push(format!("T{t} {tr:?} {:?}/{:?} {} @{}", p.req.mode, p.req.kind, short_class(p.req.class), short_site(&p.req)));
                    }
                    let l = st.locks.get_mut(&p.req.addr).unwrap();
                    match tr {
                        Tr::Acquire => {
                            if p.req.mode == Mode::Read {
                                l.readers.push(t)
                            } else {
                                l.writer = Some(t);
                                if l.pending == Some(t) {
                                    l.pending = None;
                                }
                            }
                            st.pend[t] = None;
                            st.grant[t] = Some(true);
                        }
                        Tr::Announce => {
                            l.pending = Some(t);
                            st.pend[t].as_mut().unwrap().announced = true;
                        }
                        Tr::Refuse => {
                            if l.pending == Some(t) {
                                l.pending = None;
                            }
                            st.pend[t] = None;
                            st.grant[t] = Some(false);
                        }
                    }
                }
            }
            if st.grant[t].is_some() {
                st.tstate[t] = TState::Running;
                return st.threads[t].clone().into_iter().collect();
            }
            // an announcement does not hand the processor to anybody: schedule again
        }
    }
}

impl Hook {
    fn wait_grant(&self) -> bool {
        loop {
            {
                let mut st = self.sh.st.lock().unwrap();
                if let Some(g) = st.grant[self.tid].take() {
                    return g;
                }
            }
            std::thread::park();
        }
    }
}

fn is_file_lock(class: &str) -> bool {
    class.ends_with("ArxmlFileRaw")
}

impl LockHook for Hook {
    fn acquire(&self, req: &Req) -> bool {
        // File locks are modelled like every other lock, but an acquisition that is admitted right away is not a scheduling
        // point (no alternatives are explored there): the order in which the files of a HashSet<WeakArxmlFile> are visited
        // depends on RandomState, and branching on those steps would make schedules irreproducible. File locks are held for
        // the duration of a field access (in one place a read lock is held while the root element is updated), so preempting
        // a thread exactly there adds no behaviour that preempting it at the neighbouring element/model acquisition does not
        // have. A file lock that is NOT admitted blocks the thread through the normal scheduling step.
        if is_file_lock(req.class) && !self.sh.abort.load(Ordering::SeqCst) {
            let mut st = self.sh.st.lock().unwrap();
            let p = Pending { req: *req, announced: false };
            let l = st.locks.entry(req.addr).or_default();
            if enabled(l, &p, self.tid).first() == Some(&Tr::Acquire) {
                if req.mode == Mode::Read {
                    l.readers.push(self.tid);
                } else {
                    l.writer = Some(self.tid);
                }
                return true;
            }
        }
        if self.sh.abort.load(Ordering::SeqCst) {
            // unwinding after the controlled part has ended: refuse (blocking calls then panic in the shim and unwind)
            return false;
        }
        let wake = {
            let mut st = self.sh.st.lock().unwrap();
            st.pend[self.tid] = Some(Pending { req: *req, announced: false });
            st.tstate[self.tid] = TState::AtPoint;
            self.sh.schedule(&mut st)
        };
        let me = std::thread::current().id();
        for th in wake {
            if th.id() != me {
                th.unpark();
            }
        }
        self.wait_grant()
    }
    fn release(&self, addr: usize, mode: Mode) {
        let mut st = self.sh.st.lock().unwrap();
        if let Some(l) = st.locks.get_mut(&addr) {
            match mode {
                Mode::Write => {
                    if l.writer == Some(self.tid) {
                        l.writer = None;
                    }
                }
                Mode::Read => {
                    if let Some(p) = l.readers.iter().position(|t| *t == self.tid) {
                        l.readers.swap_remove(p);
                    }
                }
            }
        }
    }
}

struct Job<S> {
    sh: Arc<Shared>,
    seed: Arc<S>,
    op: OpFn<S>,
    tid: usize,
    results: Arc<Mutex<Vec<String>>>,
    registered: Arc<std::sync::atomic::AtomicUsize>,
    done: Arc<std::sync::atomic::AtomicUsize>,
}

/// persistent worker threads for one exploration (spawning threads per execution does not scale across explorations)
pub struct Pool<S: Send + Sync + 'static> {
    senders: Vec<std::sync::mpsc::Sender<Job<S>>>,
    handles: Vec<std::thread::JoinHandle<()>>,
}

impl<S: Send + Sync + 'static> Pool<S> {
    pub fn new(n: usize) -> Result<Pool<S>, String> {
        let mut senders = vec![];
        let mut handles = vec![];
        for _ in 0..n {
            let (tx, rx) = std::sync::mpsc::channel::<Job<S>>();
            senders.push(tx);
            handles.push(
                std::thread::Builder::new()
                    .stack_size(1 << 20)
                    .spawn(move || {
                        while let Ok(job) = rx.recv() {
                            let Job { sh, seed, op, tid, results, registered, done } = job;
                            let hook = Arc::new(Hook { sh: sh.clone(), tid });
                            {
                                let mut st = sh.st.lock().unwrap();
                                st.threads[tid] = Some(std::thread::current());
                                st.tstate[tid] = TState::AtPoint;
                                st.pend[tid] = None;
                            }
                            registered.fetch_add(1, Ordering::SeqCst);
                            sh.driver.unpark();
                            hook.wait_grant();
                            set_thread_hook(Some(hook.clone()));
                            let r = crate::common::guarded(|| op(&seed)).unwrap_or_else(|m| format!("PANIC {m}"));
                            set_thread_hook(None);
                            drop(seed);
                            results.lock().unwrap()[tid] = r;
                            let wake = {
                                let mut st = sh.st.lock().unwrap();
                                st.tstate[tid] = TState::Finished;
                                if sh.abort.load(Ordering::SeqCst) {
                                    vec![]
                                } else {
                                    sh.schedule(&mut st)
                                }
                            };
                            for th in wake {
                                th.unpark();
                            }
                            done.fetch_add(1, Ordering::SeqCst);
                            sh.driver.unpark();
                        }
                    })
                    .map_err(|e| format!("cannot spawn: {e}"))?,
            );
        }
        Ok(Pool { senders, handles })
    }
}

impl<S: Send + Sync + 'static> Drop for Pool<S> {
    fn drop(&mut self) {
        self.senders.clear();
        for h in self.handles.drain(..) {
            let _ = h.join();
        }
    }
}

/// one execution with a temporary pool (replays)
pub fn run<S: Send + Sync + 'static>(seed: Arc<S>, ops: &[OpFn<S>], prefix: &[usize]) -> Result<RunResult, String> {
    let pool = Pool::new(ops.len())?;
    run_pooled(&pool, seed, ops, prefix)
}

/// one execution: fresh seed, the ops on the pool's threads, schedule = `prefix` then always the first enabled option
pub fn run_pooled<S: Send + Sync + 'static>(pool: &Pool<S>, seed: Arc<S>, ops: &[OpFn<S>], prefix: &[usize]) -> Result<RunResult, String> {
    let n = ops.len();
    let sh = Arc::new(Shared {
        st: Mutex::new(St {
            tstate: vec![TState::Running; n],
            pend: vec![None; n],
            grant: vec![None; n],
            locks: HashMap::new(),
            log: vec![],
            threads: vec![None; n],
            running: None,
            prefix: prefix.to_vec(),
            choices: vec![],
            nopts: vec![],
            preempt_cost: vec![],
            outcome: None,
            error: None,
        }),
        driver: std::thread::current(),
        abort: AtomicBool::new(false),
    });
    let results = Arc::new(Mutex::new(vec![String::new(); n]));
    let registered = Arc::new(std::sync::atomic::AtomicUsize::new(0));
    let done = Arc::new(std::sync::atomic::AtomicUsize::new(0));
    for (tid, op) in ops.iter().enumerate() {
        pool.senders[tid]
            .send(Job { sh: sh.clone(), seed: seed.clone(), op: op.clone(), tid, results: results.clone(), registered: registered.clone(), done: done.clone() })
            .map_err(|_| "worker thread is gone".to_string())?;
    }
    // wait until every thread stands at its start point, then perform the first scheduling step
    while registered.load(Ordering::SeqCst) < n {
        std::thread::park_timeout(std::time::Duration::from_micros(100));
    }
    let wake = {
        let mut st = sh.st.lock().unwrap();
        sh.schedule(&mut st)
    };
    for th in wake {
        th.unpark();
    }
    let t0 = std::time::Instant::now();
    while done.load(Ordering::SeqCst) < n {
        std::thread::park_timeout(std::time::Duration::from_millis(2));
        if t0.elapsed() > std::time::Duration::from_secs(60) {
            return Err("execution did not end within 60 s (a thread blocked outside the controlled locks?)".into());
        }
    }
    let mut st = sh.st.lock().unwrap();
    if let Some(e) = st.error.take() {
        return Err(e);
    }
    let outcome = st.outcome.take().unwrap_or(ExecOutcome::Done);
    let results = results.lock().unwrap().clone();
    Ok(RunResult { outcome, choices: st.choices.clone(), nopts: st.nopts.clone(), preempt_cost: st.preempt_cost.clone(), results, log: st.log.clone() })
}

pub struct Exploration {
    pub executions: u64,
    pub points: u64,
    pub max_points: usize,
    pub deadlocks: Vec<(Vec<usize>, Vec<Blocked>, Vec<String>)>,
    /// (results joined, final canonical form hash / text) -> a schedule producing it
    pub outcomes: HashMap<(Vec<String>, String), Vec<usize>>,
    pub horizon_hits: u64,
    pub capped: bool,
    pub errors: Vec<String>,
}

/// all schedules with at most `bound` preemptions (timeout choices are free), by prefix replay
pub fn explore<S: Send + Sync + 'static>(
    mk_seed: &dyn Fn() -> S,
    ops: &[OpFn<S>],
    bound: usize,
    final_state: &dyn Fn(&S) -> String,
    max_execs: u64,
) -> Exploration {
    let mut ex = Exploration { executions: 0, points: 0, max_points: 0, deadlocks: vec![], outcomes: HashMap::new(), horizon_hits: 0, capped: false, errors: vec![] };
    let mut stack: Vec<(Vec<usize>, usize)> = vec![(vec![], 0)];
    let pool = match Pool::new(ops.len()) {
        Ok(p) => p,
        Err(e) => {
            ex.errors.push(e);
            return ex;
        }
    };
    while let Some((prefix, used)) = stack.pop() {
        if ex.executions >= max_execs {
            ex.capped = true;
            break;
        }
        let seed = Arc::new(mk_seed());
        let r = match run_pooled(&pool, seed.clone(), ops, &prefix) {
            Ok(r) => r,
            Err(e) => {
                ex.errors.push(e);
                continue;
            }
        };
        ex.executions += 1;
        ex.points += r.choices.len() as u64;
        ex.max_points = ex.max_points.max(r.choices.len());
        match &r.outcome {
            ExecOutcome::Deadlock(b) => {
                if ex.deadlocks.len() < 8 {
                    ex.deadlocks.push((r.choices.clone(), b.clone(), r.log.clone()));
                }
            }
            ExecOutcome::Horizon => ex.horizon_hits += 1,
            ExecOutcome::Done => {
                let fin = final_state(&seed);
                ex.outcomes.entry((r.results.clone(), fin)).or_insert_with(|| r.choices.clone());
            }
        }
        // branch on every alternative after the prefix whose cost stays within the bound
        let cost = used;
        for i in prefix.len()..r.choices.len() {
            for alt in 1..r.nopts[i] {
                // every alternative that takes the processor away from a thread that could have continued is a preemption;
                // this includes delivering a timeout to a waiter while another thread is runnable
                let c = cost + r.preempt_cost[i];
                if c <= bound {
                    let mut p = r.choices[..i].to_vec();
                    p.push(alt);
                    stack.push((p, c));
                }
            }
        }
    }
    ex
}

// ------------------------------------------------------------------------------------------------ model <-> parking_lot conformance

/// Drives a real parking_lot::RwLock through the situations the lock model distinguishes and compares what the real lock
/// admits with what `enabled` says. Returns the list of disagreements (empty = the model is bound to the implementation).
pub fn lock_model_conformance() -> Vec<String> {
    use std::sync::mpsc::channel;
    use std::time::Duration;
    let mut bad = vec![];
    let loc = std::panic::Location::caller();
    let req = |mode: Mode, kind: Kind| Pending { req: Req { addr: 1, class: "T", mode, kind, site: loc }, announced: false };
    let admits = |l: &LockSt, mode: Mode, kind: Kind, tid: usize| enabled(l, &req(mode, kind), tid).first() == Some(&Tr::Acquire);
    let mut check = |what: &str, model: bool, real: bool| {
        if model != real {
            bad.push(format!("{what}: model admits={model}, parking_lot admits={real}"));
        }
    };
    // 1. free lock
    {
        let lock = parking_lot::RwLock::new(());
        let l = LockSt::default();
        check("free/try_read", admits(&l, Mode::Read, Kind::Try, 0), lock.try_read().is_some());
        check("free/try_write", admits(&l, Mode::Write, Kind::Try, 0), lock.try_write().is_some());
    }
    // 2. one reader, nobody waiting
    {
        let lock = parking_lot::RwLock::new(());
        let _g = lock.read();
        let l = LockSt { writer: None, readers: vec![0], pending: None };
        check("reader/try_read(other)", admits(&l, Mode::Read, Kind::Try, 1), lock.try_read().is_some());
        check("reader/try_write", admits(&l, Mode::Write, Kind::Try, 1), lock.try_write().is_some());
        check("reader/try_write_for", admits(&l, Mode::Write, Kind::Timed, 1), lock.try_write_for(Duration::from_millis(5)).is_some());
        // after the timed writer has given up, readers are admitted again (the announcement is withdrawn)
        check("reader/after-timed-out-writer/try_read", admits(&l, Mode::Read, Kind::Try, 1), lock.try_read().is_some());
    }
    // 3. writer
    {
        let lock = parking_lot::RwLock::new(());
        let _g = lock.write();
        let l = LockSt { writer: Some(0), readers: vec![], pending: None };
        check("writer/try_read", admits(&l, Mode::Read, Kind::Try, 1), lock.try_read().is_some());
        check("writer/try_write", admits(&l, Mode::Write, Kind::Try, 1), lock.try_write().is_some());
        check("writer/try_read_for", admits(&l, Mode::Read, Kind::Timed, 1), lock.try_read_for(Duration::from_millis(5)).is_some());
    }
    // 4. reader held and a writer parked behind it: new readers are refused, also a second read by the thread that holds one
    {
        let lock = Arc::new(parking_lot::RwLock::new(()));
        let g = lock.read();
        let (tx, rx) = channel::<()>();
        let (tx_done, rx_done) = channel::<()>();
        let l2 = lock.clone();
        let h = std::thread::spawn(move || {
            let _w = l2.write(); // parks until the reader leaves
            tx_done.send(()).unwrap();
            rx.recv().unwrap();
        });
        // wait until the writer is parked (the announcement is visible as soon as try_read starts failing)
        let t0 = std::time::Instant::now();
        while lock.try_read().is_some() && t0.elapsed() < Duration::from_secs(2) {
            std::thread::sleep(Duration::from_millis(1));
        }
        let l = LockSt { writer: None, readers: vec![0], pending: Some(1) };
        check("reader+parked-writer/try_read(same thread)", admits(&l, Mode::Read, Kind::Try, 0), lock.try_read().is_some());
        check("reader+parked-writer/try_read_for", admits(&l, Mode::Read, Kind::Timed, 2), lock.try_read_for(Duration::from_millis(5)).is_some());
        check("reader+parked-writer/try_write", admits(&l, Mode::Write, Kind::Try, 2), lock.try_write().is_some());
        // the announced writer gets the lock when the reader leaves
        drop(g);
        let got = rx_done.recv_timeout(Duration::from_secs(2)).is_ok();
        let l = LockSt { writer: None, readers: vec![], pending: Some(1) };
        let mut p = req(Mode::Write, Kind::Block);
        p.announced = true;
        check("parked-writer/acquires-after-readers-left", enabled(&l, &p, 1).first() == Some(&Tr::Acquire), got);
        tx.send(()).unwrap();
        let _ = h.join();
    }
    bad
}
