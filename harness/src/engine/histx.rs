//! histx — explicit-state search over histories of public API calls on the real model.
//! A state is the history that reaches it (replayed from a seed on fresh models); canonical forms are hashed
//! to merge equal states; invariants are evaluated in every state and transition oracles on every transition.
use crate::common::invariants::*;
use crate::common::seqhook;
use crate::common::tree::*;
use crate::common::*;
use autosar_data::*;
use rayon::prelude::*;
use serde_json::{json, Value};
use std::collections::{BTreeMap, BTreeSet, HashMap, HashSet};
use std::hash::{Hash, Hasher};

// ------------------------------------------------------------------------------------------------ world

pub struct World {
    pub m: AutosarModel,
    /// a second model: source of foreign handles, destination/source of cross-model copies and moves
    pub other: AutosarModel,
    /// every element of `m` the harness has ever held (graveyard = held minus live)
    pub held: Vec<Element>,
    pub held_files: Vec<ArxmlFile>,
}

pub fn live(m: &AutosarModel) -> Vec<Element> {
    walk(m).into_iter().map(|(_, e)| e).collect()
}
pub fn files_sorted(m: &AutosarModel) -> Vec<ArxmlFile> {
    let mut f: Vec<ArxmlFile> = m.files().collect();
    f.sort_by_key(|x| x.filename());
    f
}

impl World {
    pub fn note_handles(&mut self) {
        let have: HashSet<Element> = self.held.iter().cloned().collect();
        for e in live(&self.m) {
            if !have.contains(&e) {
                self.held.push(e);
            }
        }
        for f in self.m.files() {
            if !self.held_files.contains(&f) {
                self.held_files.push(f);
            }
        }
    }
    pub fn graveyard(&self) -> Vec<Element> {
        // an element that was moved into the other model is alive there, not removed
        let l: HashSet<Element> = live(&self.m).into_iter().chain(live(&self.other)).collect();
        self.held.iter().filter(|e| !l.contains(e)).cloned().collect()
    }
}

const V50: AutosarVersion = AutosarVersion::Autosar_00050;
const V49: AutosarVersion = AutosarVersion::Autosar_00049;

fn mk_ref(fe: &Element, target: Option<&Element>, text: Option<&str>, dest: EnumItem) {
    let r = fe.create_sub_element(ElementName::FibexElementRefConditional).unwrap().create_sub_element(ElementName::FibexElementRef).unwrap();
    if let Some(t) = target {
        r.set_reference_target(t).unwrap();
    }
    if let Some(t) = text {
        r.set_attribute(AttributeName::Dest, dest).unwrap();
        r.set_character_data(t).unwrap();
    }
}

fn other_model() -> AutosarModel {
    let o = AutosarModel::new();
    o.create_file("o.arxml", V50).unwrap();
    let pkgs = o.root_element().create_sub_element(ElementName::ArPackages).unwrap();
    let a = pkgs.create_named_sub_element(ElementName::ArPackage, "a").unwrap();
    let els = a.create_sub_element(ElementName::Elements).unwrap();
    let s = els.create_named_sub_element(ElementName::System, "s").unwrap();
    let c = els.create_named_sub_element(ElementName::CanCluster, "c").unwrap();
    let fe = s.create_sub_element(ElementName::FibexElements).unwrap();
    mk_ref(&fe, Some(&c), None, EnumItem::CanCluster);
    // names that are string prefixes of each other (a1 / a10), and that collide with names of the live seeds when the
    // ELEMENTS container is moved next to a sub-package a1
    els.create_named_sub_element(ElementName::CanCluster, "a1").unwrap();
    els.create_named_sub_element(ElementName::CanCluster, "a10").unwrap();
    o
}

/// seeds explored to one level less than the others (see explore)
pub const SHALLOW_SEEDS: [&str; 1] = ["longname"];
pub const SEEDS: [&str; 9] = ["refs", "nested", "twofile", "samever", "mixedver", "lenient", "empty", "lastfile", "longname"];

pub fn seed(name: &str) -> World {
    let m = AutosarModel::new();
    match name {
        "refs" => {
            m.create_file("x.arxml", V50).unwrap();
            let pkgs = m.root_element().create_sub_element(ElementName::ArPackages).unwrap();
            let a = pkgs.create_named_sub_element(ElementName::ArPackage, "a").unwrap();
            let els = a.create_sub_element(ElementName::Elements).unwrap();
            let s = els.create_named_sub_element(ElementName::System, "s").unwrap();
            let c = els.create_named_sub_element(ElementName::CanCluster, "c").unwrap();
            let fe = s.create_sub_element(ElementName::FibexElements).unwrap();
            mk_ref(&fe, Some(&c), None, EnumItem::CanCluster);
            mk_ref(&fe, None, Some("/a/a1"), EnumItem::CanCluster); // dangling = a path a rename can create
            mk_ref(&fe, None, Some("/a/c"), EnumItem::EcuInstance); // resolves, DEST does not fit
            let a10 = pkgs.create_named_sub_element(ElementName::ArPackage, "a10").unwrap();
            a10.create_sub_element(ElementName::ArPackages).unwrap();
        }
        "longname" => {
            // two packages with the same name of 127 characters (one more character fits, "_1" does not), one of them referenced:
            // moving or copying one next to the other needs a replacement name that is still a valid name
            m.create_file("x.arxml", V50).unwrap();
            let pkgs = m.root_element().create_sub_element(ElementName::ArPackages).unwrap();
            let long: String = std::iter::once('L').chain(std::iter::repeat('n').take(126)).collect();
            let l_top = pkgs.create_named_sub_element(ElementName::ArPackage, &long).unwrap();
            l_top.create_sub_element(ElementName::Elements).unwrap().create_named_sub_element(ElementName::CanCluster, "lc").unwrap();
            let q = pkgs.create_named_sub_element(ElementName::ArPackage, "q").unwrap();
            let sub = q.create_sub_element(ElementName::ArPackages).unwrap();
            sub.create_named_sub_element(ElementName::ArPackage, &long).unwrap();
            // the names a package "r" gets when it is moved here are taken twice already: r and r_1 (the latter is referenced)
            pkgs.create_named_sub_element(ElementName::ArPackage, "r").unwrap();
            sub.create_named_sub_element(ElementName::ArPackage, "r").unwrap();
            sub.create_named_sub_element(ElementName::ArPackage, "r_1").unwrap();
            let s = q.create_sub_element(ElementName::Elements).unwrap().create_named_sub_element(ElementName::System, "s").unwrap();
            let fe = s.create_sub_element(ElementName::FibexElements).unwrap();
            mk_ref(&fe, None, Some(&format!("/{long}/lc")), EnumItem::CanCluster);
            mk_ref(&fe, None, Some("/q/r_1"), EnumItem::CanCluster);
        }
        "nested" => {
            m.create_file("x.arxml", V50).unwrap();
            let pkgs = m.root_element().create_sub_element(ElementName::ArPackages).unwrap();
            let a = pkgs.create_named_sub_element(ElementName::ArPackage, "a").unwrap();
            let sub = a.create_sub_element(ElementName::ArPackages).unwrap();
            let a1 = sub.create_named_sub_element(ElementName::ArPackage, "a1").unwrap();
            sub.create_named_sub_element(ElementName::ArPackage, "a10").unwrap();
            let els = a1.create_sub_element(ElementName::Elements).unwrap();
            let c = els.create_named_sub_element(ElementName::CanCluster, "c").unwrap();
            // nested identifiable below a non-identifiable container; a second, empty CAN-CLUSTER-CONDITIONAL next to it: moving
            // PHYSICAL-CHANNELS there changes the parent but no path
            let variants = c.create_sub_element(ElementName::CanClusterVariants).unwrap();
            let ch = variants
                .create_sub_element(ElementName::CanClusterConditional)
                .unwrap()
                .create_sub_element(ElementName::PhysicalChannels)
                .unwrap()
                .create_named_sub_element(ElementName::CanPhysicalChannel, "ch")
                .unwrap();
            variants.create_sub_element(ElementName::CanClusterConditional).unwrap();
            let s = els.create_named_sub_element(ElementName::System, "s").unwrap();
            let fe = s.create_sub_element(ElementName::FibexElements).unwrap();
            mk_ref(&fe, Some(&c), None, EnumItem::CanCluster);
            mk_ref(&fe, None, Some("/a/a1/c/ch"), EnumItem::EcuInstance);
            mk_ref(&fe, None, Some("/a/a10/c"), EnumItem::CanCluster);
            let _ = ch;
            let desc = a.create_sub_element(ElementName::Desc).unwrap();
            let l2 = desc.create_sub_element(ElementName::L2).unwrap();
            l2.set_attribute(AttributeName::L, EnumItem::En).unwrap();
            l2.insert_character_content_item("text", 0).unwrap();
            // sub-elements inside mixed content (held as handles since the seed): set_character_data on the L-2 replaces them
            let tt = l2.create_sub_element(ElementName::Tt).unwrap();
            tt.set_attribute(AttributeName::Type, "SGMLTAG").unwrap();
            tt.set_character_data("t").unwrap();
            let xref = l2.create_sub_element(ElementName::Xref).unwrap();
            let rr = xref.create_sub_element(ElementName::ReferrableRef).unwrap();
            rr.set_attribute(AttributeName::Dest, EnumItem::CanCluster).unwrap();
            rr.set_character_data("/a/a1/c").unwrap();
            // a second L-2 whose only content item is a sub-element holding a reference
            let l2b = desc.create_sub_element(ElementName::L2).unwrap();
            l2b.set_attribute(AttributeName::L, EnumItem::De).unwrap();
            let rrb = l2b.create_sub_element(ElementName::Xref).unwrap().create_sub_element(ElementName::ReferrableRef).unwrap();
            rrb.set_attribute(AttributeName::Dest, EnumItem::CanCluster).unwrap();
            rrb.set_character_data("/a/a1/c").unwrap();
            // two optional attributes, so that removing the first one is not removing the last entry
            a.set_attribute(AttributeName::Uuid, "u0").unwrap();
            a.set_attribute(AttributeName::S, "s0").unwrap();
            a.set_comment(Some("cmt".into()));
        }
        "twofile" => {
            let fx = m.create_file("x.arxml", V50).unwrap();
            let pkgs = m.root_element().create_sub_element(ElementName::ArPackages).unwrap();
            // a package that only the newer file has, holding an element kind that only the newer version has: copies inside it
            // are governed by the version of that file alone (built while the newer file is the only one)
            let n = pkgs.create_named_sub_element(ElementName::ArPackage, "n").unwrap();
            n.create_sub_element(ElementName::Elements).unwrap().create_named_sub_element(ElementName::ApplicationInterface, "ai").unwrap();
            let fy = m.create_file("y.arxml", V49).unwrap();
            // the new file starts without content: the packages are shared, n stays with the newer file
            pkgs.add_to_file(&fy).unwrap();
            n.remove_from_file(&fy).unwrap();
            let a = pkgs.create_named_sub_element(ElementName::ArPackage, "a").unwrap();
            let b = pkgs.create_named_sub_element(ElementName::ArPackage, "a1").unwrap();
            let els = a.create_sub_element(ElementName::Elements).unwrap();
            let s = els.create_named_sub_element(ElementName::System, "s").unwrap();
            let c = els.create_named_sub_element(ElementName::CanCluster, "c").unwrap();
            b.remove_from_file(&fx).unwrap(); // a1 only in y
            s.remove_from_file(&fy).unwrap(); // s only in x
            let fe = s.create_sub_element(ElementName::FibexElements).unwrap();
            mk_ref(&fe, Some(&c), None, EnumItem::CanCluster);
            b.create_sub_element(ElementName::Elements).unwrap();
        }
        "samever" => {
            // two files of the same version: elements restricted to different files can be moved below each other
            let fx = m.create_file("x.arxml", V50).unwrap();
            let fy = m.create_file("y.arxml", V50).unwrap();
            let pkgs = m.root_element().create_sub_element(ElementName::ArPackages).unwrap();
            let a = pkgs.create_named_sub_element(ElementName::ArPackage, "a").unwrap();
            let b = pkgs.create_named_sub_element(ElementName::ArPackage, "a1").unwrap();
            let els = a.create_sub_element(ElementName::Elements).unwrap();
            let s = els.create_named_sub_element(ElementName::System, "s").unwrap();
            let c = els.create_named_sub_element(ElementName::CanCluster, "c").unwrap();
            b.remove_from_file(&fx).unwrap(); // a1 only in y
            s.remove_from_file(&fy).unwrap(); // s only in x
            let fe = s.create_sub_element(ElementName::FibexElements).unwrap();
            mk_ref(&fe, Some(&c), None, EnumItem::CanCluster);
            b.create_sub_element(ElementName::Elements).unwrap();
            // a named element below a parent that cannot be split over files: a file with another TIMING-RESOURCE here is rejected in the merge
            let t = els.create_named_sub_element(ElementName::SystemTiming, "t").unwrap();
            let r1 = t.create_named_sub_element(ElementName::TimingResource, "r1").unwrap();
            // t only in x; r1 is a named element that may be split, with a child that can be added to the other file on its own
            r1.create_sub_element(ElementName::TimingArguments).unwrap();
            t.remove_from_file(&fy).unwrap();
        }
        "mixedver" => {
            // two loaded files of different versions that share a package; the newer one holds an element kind that the
            // older version does not have (it cannot be created through the API here, only loaded)
            let doc = |v: AutosarVersion, inner: &str| format!("<?xml version=\"1.0\" encoding=\"utf-8\"?><AUTOSAR {}><AR-PACKAGES><AR-PACKAGE><SHORT-NAME>a</SHORT-NAME><ELEMENTS>{inner}</ELEMENTS></AR-PACKAGE></AR-PACKAGES></AUTOSAR>", header_attrs(v));
            m.load_buffer(doc(V50, "<APPLICATION-INTERFACE><SHORT-NAME>n</SHORT-NAME></APPLICATION-INTERFACE><CAN-CLUSTER><SHORT-NAME>c</SHORT-NAME></CAN-CLUSTER>").as_bytes(), "x.arxml", true).expect("mixedver x loads");
            m.load_buffer(doc(V49, "<CAN-CLUSTER><SHORT-NAME>c</SHORT-NAME></CAN-CLUSTER><SYSTEM><SHORT-NAME>s</SHORT-NAME></SYSTEM>").as_bytes(), "y.arxml", true).expect("mixedver y loads");
        }
        "lenient" => {
            // 4.0.1 file with a child that only exists in later versions and a reference without DEST
            let doc = format!(
                "<?xml version=\"1.0\" encoding=\"utf-8\"?><AUTOSAR {}><AR-PACKAGES><AR-PACKAGE><SHORT-NAME>a</SHORT-NAME><ELEMENTS><SYSTEM><SHORT-NAME>s</SHORT-NAME><FIBEX-ELEMENTS><FIBEX-ELEMENT-REF-CONDITIONAL><FIBEX-ELEMENT-REF>/a/c</FIBEX-ELEMENT-REF></FIBEX-ELEMENT-REF-CONDITIONAL></FIBEX-ELEMENTS><SYSTEM-VERSION>1</SYSTEM-VERSION><INTERPOLATION-ROUTINE-MAPPING-SET-REFS/></SYSTEM><CAN-CLUSTER><SHORT-NAME>c</SHORT-NAME></CAN-CLUSTER><CAN-CLUSTER><SHORT-NAME>0c</SHORT-NAME></CAN-CLUSTER></ELEMENTS></AR-PACKAGE><AR-PACKAGE><SHORT-NAME>a1</SHORT-NAME><ELEMENTS><CAN-CLUSTER><SHORT-NAME>0c</SHORT-NAME></CAN-CLUSTER></ELEMENTS></AR-PACKAGE></AR-PACKAGES></AUTOSAR>",
                header_attrs(AutosarVersion::Autosar_4_0_1)
            );
            m.load_buffer(doc.as_bytes(), "x.arxml", false).expect("lenient seed loads");
        }
        "empty" => {
            m.create_file("x.arxml", V50).unwrap();
        }
        "lastfile" => {
            let f = m.create_file("x.arxml", V50).unwrap();
            let pkgs = m.root_element().create_sub_element(ElementName::ArPackages).unwrap();
            let a = pkgs.create_named_sub_element(ElementName::ArPackage, "a").unwrap();
            a.create_sub_element(ElementName::Elements).unwrap();
            let mut w = World { m: m.clone(), other: other_model(), held: vec![], held_files: vec![] };
            w.note_handles();
            m.remove_file(&f);
            m.create_file("y.arxml", V50).unwrap();
            m.root_element().create_sub_element(ElementName::ArPackages).unwrap();
            w.note_handles();
            return w;
        }
        other => panic!("unknown seed {other}"),
    }
    let mut w = World { m, other: other_model(), held: vec![], held_files: vec![] };
    w.note_handles();
    w
}

/// the lowest version of the files that contain the element (own computation from file_membership)
pub fn own_min_version(e: &Element) -> Option<AutosarVersion> {
    let (_, files) = e.file_membership().ok()?;
    files.iter().filter_map(|f| f.upgrade()).map(|f| f.version()).min()
}

// ------------------------------------------------------------------------------------------------ operations

#[derive(Clone, Debug, PartialEq, Eq, Hash, PartialOrd, Ord)]
pub enum Src {
    Live(usize),
    Foreign(usize),
}

#[derive(Clone, Debug, PartialEq, Eq, Hash, PartialOrd, Ord)]
pub enum Op {
    Create(usize, ElementNameOrd),
    CreateAt(usize, ElementNameOrd, usize),
    CreateNamed(usize, ElementNameOrd, &'static str),
    CreateNamedAt(usize, ElementNameOrd, &'static str, usize),
    GetOrCreate(usize, ElementNameOrd),
    GetOrCreateNamed(usize, ElementNameOrd, &'static str),
    Copy(usize, Src),
    CopyAt(usize, Src, usize),
    Move(usize, Src),
    MoveAt(usize, Src, usize),
    Remove(usize, Src),
    RemoveKind(usize, ElementNameOrd),
    Rename(usize, &'static str),
    /// foreign.move_element_here(live) / foreign.create_copied_sub_element(live): destination index in the other model
    MoveOut(usize, usize),
    CopyOut(usize, usize),
    SetCdata(usize, String),
    RemoveCdata(usize),
    InsertText(usize, usize),
    RemoveText(usize, usize),
    SetRefTarget(usize, Src),
    SetAttr(usize, &'static str, &'static str),
    SetAttrStr(usize, &'static str, &'static str),
    RemoveAttr(usize, &'static str),
    SetComment(usize, Option<&'static str>),
    SortModel,
    SortElem(usize),
    CreateFile(&'static str, bool),
    RemoveFile(usize),
    AddToFile(usize, usize),
    AddToForeignFile(usize),
    /// add_to_file with the handle of a file that was removed from the model
    AddToRemovedFile(usize),
    RemoveFromForeignFile(usize),
    RemoveFromFile(usize, usize),
    SetFilename(usize, &'static str),
    SetVersion(usize, bool),
    Load(usize, bool),
}

/// ElementName with an order (the specification type is not Ord)
#[derive(Clone, Copy, Debug, PartialEq, Eq, Hash)]
pub struct ElementNameOrd(pub ElementName);
impl PartialOrd for ElementNameOrd {
    fn partial_cmp(&self, o: &Self) -> Option<std::cmp::Ordering> {
        Some(self.cmp(o))
    }
}
impl Ord for ElementNameOrd {
    fn cmp(&self, o: &Self) -> std::cmp::Ordering {
        (self.0 as u16).cmp(&(o.0 as u16))
    }
}

pub fn op_kind(op: &Op) -> &'static str {
    match op {
        Op::Create(..) => "create_sub_element",
        Op::CreateAt(..) => "create_sub_element_at",
        Op::CreateNamed(..) => "create_named_sub_element",
        Op::CreateNamedAt(..) => "create_named_sub_element_at",
        Op::GetOrCreate(..) => "get_or_create_sub_element",
        Op::GetOrCreateNamed(..) => "get_or_create_named_sub_element",
        Op::Copy(..) => "create_copied_sub_element",
        Op::CopyAt(..) => "create_copied_sub_element_at",
        Op::Move(..) => "move_element_here",
        Op::MoveAt(..) => "move_element_here_at",
        Op::Remove(..) => "remove_sub_element",
        Op::RemoveKind(..) => "remove_sub_element_kind",
        Op::Rename(..) => "set_item_name",
        Op::MoveOut(..) => "move_element_here(into-other-model)",
        Op::CopyOut(..) => "create_copied_sub_element(into-other-model)",
        Op::SetCdata(..) => "set_character_data",
        Op::RemoveCdata(..) => "remove_character_data",
        Op::InsertText(..) => "insert_character_content_item",
        Op::RemoveText(..) => "remove_character_content_item",
        Op::SetRefTarget(..) => "set_reference_target",
        Op::SetAttr(..) => "set_attribute",
        Op::SetAttrStr(..) => "set_attribute_string",
        Op::RemoveAttr(..) => "remove_attribute",
        Op::SetComment(..) => "set_comment",
        Op::SortModel => "model.sort",
        Op::SortElem(..) => "element.sort",
        Op::CreateFile(..) => "create_file",
        Op::RemoveFile(..) => "remove_file",
        Op::AddToFile(..) => "add_to_file",
        Op::AddToForeignFile(..) => "add_to_file(foreign)",
        Op::AddToRemovedFile(..) => "add_to_file(removed file)",
        Op::RemoveFromForeignFile(..) => "remove_from_file(foreign)",
        Op::RemoveFromFile(..) => "remove_from_file",
        Op::SetFilename(..) => "set_filename",
        Op::SetVersion(..) => "set_version",
        Op::Load(..) => "load_buffer",
    }
}

#[derive(Clone, Copy, PartialEq, Eq, Debug)]
pub enum Profile {
    Tree,
    Refs,
    Files,
    Core,
    All,
}

const ITEM_NAMES: [&str; 3] = ["a", "a1", "a10"];
const FILE_NAMES: [&str; 3] = ["x.arxml", "y.arxml", "z.arxml"];

pub fn load_docs() -> Vec<(&'static str, String)> {
    let h = |v: AutosarVersion| format!("<?xml version=\"1.0\" encoding=\"utf-8\"?><AUTOSAR {}>", header_attrs(v));
    let pk = |name: &str, inner: &str| format!("<AR-PACKAGE><SHORT-NAME>{name}</SHORT-NAME>{inner}</AR-PACKAGE>");
    vec![
        ("disjoint", format!("{}<AR-PACKAGES>{}</AR-PACKAGES></AUTOSAR>", h(V50), pk("z9", "<ELEMENTS><CAN-CLUSTER><SHORT-NAME>c</SHORT-NAME></CAN-CLUSTER></ELEMENTS>"))),
        ("overlap-compatible", format!("{}<AR-PACKAGES>{}</AR-PACKAGES></AUTOSAR>", h(V50), pk("a", "<ELEMENTS><CAN-CLUSTER><SHORT-NAME>c</SHORT-NAME><CAN-CLUSTER-VARIANTS><CAN-CLUSTER-CONDITIONAL><BAUDRATE>500000</BAUDRATE></CAN-CLUSTER-CONDITIONAL></CAN-CLUSTER-VARIANTS></CAN-CLUSTER><CAN-CLUSTER><SHORT-NAME>c9</SHORT-NAME></CAN-CLUSTER></ELEMENTS>"))),
        ("path-conflict", format!("{}<AR-PACKAGES>{}</AR-PACKAGES></AUTOSAR>", h(V50), pk("a", "<ELEMENTS><SYSTEM><SHORT-NAME>q1</SHORT-NAME></SYSTEM><SYSTEM><SHORT-NAME>c</SHORT-NAME></SYSTEM></ELEMENTS>"))),
        ("value-divergence", format!("{}<AR-PACKAGES>{}</AR-PACKAGES></AUTOSAR>", h(V50), pk("a", "<ELEMENTS><SYSTEM><SHORT-NAME>s</SHORT-NAME><SYSTEM-VERSION>1.0.0</SYSTEM-VERSION><PNC-VECTOR-LENGTH>4</PNC-VECTOR-LENGTH></SYSTEM></ELEMENTS>"))),
        ("lexer-error", format!("{}<AR-PACKAGES>{}<!-- unterminated comment", h(V50), pk("z2", "<ELEMENTS><CAN-CLUSTER><SHORT-NAME>c</SHORT-NAME></CAN-CLUSTER></ELEMENTS>"))),
        ("syntax-error", format!("{}<AR-PACKAGES>{}</AR-PACKAGES>", h(V50), pk("z8", "<ELEMENTS><CAN-CLUSTER><SHORT-NAME>c</SHORT-NAME></CAN-CLUSTER>"))),
        ("lenient-only", format!("{}<AR-PACKAGES>{}</AR-PACKAGES></AUTOSAR>", h(V50), pk("z7", "<ELEMENTS><CAN-CLUSTER UNKNOWN=\"1\"><SHORT-NAME>c</SHORT-NAME></CAN-CLUSTER></ELEMENTS>"))),
        ("other-version", format!("{}<AR-PACKAGES>{}</AR-PACKAGES></AUTOSAR>", h(V49), pk("z6", "<ELEMENTS/>"))),
        ("elements-only-in-new-file", format!("{}<AR-PACKAGES>{}{}</AR-PACKAGES></AUTOSAR>", h(V50), pk("a10", "<ELEMENTS><CAN-CLUSTER><SHORT-NAME>k</SHORT-NAME></CAN-CLUSTER></ELEMENTS>"), pk("a1", "<ELEMENTS><CAN-CLUSTER><SHORT-NAME>k</SHORT-NAME></CAN-CLUSTER></ELEMENTS><AR-PACKAGES/>"))),
        ("same-reference-texts", format!("{}<AR-PACKAGES>{}</AR-PACKAGES></AUTOSAR>", h(V50), pk("z4", "<ELEMENTS><SYSTEM><SHORT-NAME>q</SHORT-NAME><FIBEX-ELEMENTS><FIBEX-ELEMENT-REF-CONDITIONAL><FIBEX-ELEMENT-REF DEST=\"CAN-CLUSTER\">/a/c</FIBEX-ELEMENT-REF></FIBEX-ELEMENT-REF-CONDITIONAL><FIBEX-ELEMENT-REF-CONDITIONAL><FIBEX-ELEMENT-REF DEST=\"CAN-CLUSTER\">/a/a1/c</FIBEX-ELEMENT-REF></FIBEX-ELEMENT-REF-CONDITIONAL><FIBEX-ELEMENT-REF-CONDITIONAL><FIBEX-ELEMENT-REF DEST=\"CAN-CLUSTER\">/a/a1</FIBEX-ELEMENT-REF></FIBEX-ELEMENT-REF-CONDITIONAL></FIBEX-ELEMENTS></SYSTEM></ELEMENTS>"))),
        ("merge-failure-after-import", format!("{}<AR-PACKAGES>{}{}</AR-PACKAGES></AUTOSAR>", h(V50), pk("a", "<ELEMENTS><CAN-CLUSTER><SHORT-NAME>b0</SHORT-NAME></CAN-CLUSTER><SYSTEM-TIMING><SHORT-NAME>t</SHORT-NAME><TIMING-RESOURCE><SHORT-NAME>r2</SHORT-NAME></TIMING-RESOURCE></SYSTEM-TIMING></ELEMENTS>"), pk("z3", "<ELEMENTS><SYSTEM><SHORT-NAME>late</SHORT-NAME></SYSTEM></ELEMENTS>"))),
        ("late-failure", format!("{}<AR-PACKAGES>{}{}</AR-PACKAGES></AUTOSAR>", h(V50), pk("z5", "<ELEMENTS><SYSTEM><SHORT-NAME>ok</SHORT-NAME></SYSTEM></ELEMENTS>"), pk("a", "<ELEMENTS><SYSTEM><SHORT-NAME>c</SHORT-NAME></SYSTEM></ELEMENTS>"))),
    ]
}

fn universe_names() -> Vec<ElementName> {
    vec![
        ElementName::ArPackages,
        ElementName::ArPackage,
        ElementName::Elements,
        ElementName::System,
        ElementName::CanCluster,
        ElementName::FibexElements,
        ElementName::FibexElementRefConditional,
        ElementName::FibexElementRef,
        ElementName::Category,
        ElementName::Desc,
        ElementName::L2,
        ElementName::ShortName,
    ]
}

fn positions(len: usize) -> Vec<usize> {
    // every position of a short content list (a move within the parent by two or more places needs one in the middle)
    let mut p: Vec<usize> = if len <= 4 { (0..=len + 1).collect() } else { vec![0, 1, len / 2, len - 1, len, len + 1] };
    p.sort();
    p.dedup();
    p
}

/// with the extreme value (an addition to it overflows) for the full alphabet
fn positions_ext(len: usize, extreme: bool) -> Vec<usize> {
    let mut p = positions(len);
    if extreme {
        p.push(usize::MAX);
    }
    p
}

/// every applicable operation (valid and invalid argument combinations) in the current state
pub fn ops_for(w: &World, profile: Profile) -> Vec<Op> {
    let l = live(&w.m);
    let fl = live(&w.other);
    let files = files_sorted(&w.m);
    let tree = matches!(profile, Profile::Tree | Profile::All | Profile::Core);
    let refs = matches!(profile, Profile::Refs | Profile::All);
    let fileops = matches!(profile, Profile::Files | Profile::All);
    let all = profile == Profile::All;
    let core = profile == Profile::Core;
    let mut ops = vec![];
    let paths: Vec<String> = expected_paths(&w.m).into_iter().map(|(p, _)| p).collect();
    let mut ref_texts: BTreeSet<String> = paths.iter().cloned().collect();
    ref_texts.insert("/a/a1".into());
    ref_texts.insert("/nope".into());
    if tree || refs {
        ops.push(Op::SortModel);
    }
    let names = universe_names();
    for (i, e) in l.iter().enumerate() {
        let et = e.element_type();
        let nchildren = e.content_item_count();
        let valid_names: Vec<ElementName> = names.iter().copied().filter(|n| et.find_sub_element(*n, u32::MAX).is_some()).collect();
        let mut try_names = valid_names.clone();
        // one name that is not a sub-element of this type
        if let Some(bad) = names.iter().find(|n| et.find_sub_element(**n, u32::MAX).is_none()) {
            try_names.push(*bad);
        }
        if tree || (refs && e.element_name() == ElementName::FibexElementRefConditional) || (fileops && matches!(e.element_name(), ElementName::ArPackages | ElementName::Elements)) {
            for n in &try_names {
                let named = et.find_sub_element(*n, u32::MAX).is_some_and(|(t, _)| t.is_named());
                if named || all {
                    for item in ITEM_NAMES {
                        ops.push(Op::CreateNamed(i, ElementNameOrd(*n), item));
                        if (all || core) && item == "a1" {
                            for p in positions_ext(nchildren, all) {
                                ops.push(Op::CreateNamedAt(i, ElementNameOrd(*n), item, p));
                            }
                        }
                    }
                    if all {
                        ops.push(Op::CreateNamed(i, ElementNameOrd(*n), ""));
                        ops.push(Op::CreateNamed(i, ElementNameOrd(*n), "1x"));
                        ops.push(Op::GetOrCreateNamed(i, ElementNameOrd(*n), "a"));
                    }
                }
                if !named || all {
                    ops.push(Op::Create(i, ElementNameOrd(*n)));
                    if all {
                        for p in positions_ext(nchildren, all) {
                            ops.push(Op::CreateAt(i, ElementNameOrd(*n), p));
                        }
                        ops.push(Op::GetOrCreate(i, ElementNameOrd(*n)));
                    }
                }
                if all {
                    ops.push(Op::RemoveKind(i, ElementNameOrd(*n)));
                }
            }
        }
        if tree || refs || fileops {
            for (j, c) in l.iter().enumerate() {
                if c.parent().ok().flatten().as_ref() == Some(e) {
                    ops.push(Op::Remove(i, Src::Live(j)));
                } else if all && j % 5 == 1 {
                    ops.push(Op::Remove(i, Src::Live(j))); // not a child
                }
            }
            if all && !fl.is_empty() {
                ops.push(Op::Remove(i, Src::Foreign(fl.len() / 2)));
            }
        }
        if (tree || refs) && e.is_identifiable() {
            for item in ITEM_NAMES {
                ops.push(Op::Rename(i, item));
            }
            if all {
                ops.push(Op::Rename(i, ""));
                ops.push(Op::Rename(i, "1 x"));
            }
        } else if all && i % 4 == 0 {
            ops.push(Op::Rename(i, "a1"));
        }
        if tree || refs {
            // copy / move: any live element into any live element
            let movable = |x: &Element| {
                matches!(
                    x.element_name(),
                    ElementName::ArPackage | ElementName::CanCluster | ElementName::System | ElementName::Elements | ElementName::ArPackages | ElementName::FibexElementRefConditional | ElementName::CanClusterConditional | ElementName::PhysicalChannels | ElementName::FibexElementRef | ElementName::ApplicationInterface
                )
            };
            for (j, o) in l.iter().enumerate() {
                if j == 0 || !movable(o) {
                    continue;
                }
                let plausible = et.find_sub_element(o.element_name(), u32::MAX).is_some();
                if !plausible && !(all && (i + j) % 7 == 0) {
                    continue;
                }
                ops.push(Op::Move(i, Src::Live(j)));
                if tree || all {
                    ops.push(Op::Copy(i, Src::Live(j)));
                }
                if all || core {
                    for p in positions_ext(nchildren, all) {
                        ops.push(Op::MoveAt(i, Src::Live(j), p));
                        if all {
                            ops.push(Op::CopyAt(i, Src::Live(j), p));
                        }
                    }
                }
            }
            for (j, o) in fl.iter().enumerate() {
                if j == 0 || !movable(o) || et.find_sub_element(o.element_name(), u32::MAX).is_none() {
                    continue;
                }
                ops.push(Op::Copy(i, Src::Foreign(j)));
                ops.push(Op::Move(i, Src::Foreign(j)));
            }
        }
        let movable_out = matches!(
            e.element_name(),
            ElementName::ArPackage | ElementName::CanCluster | ElementName::System | ElementName::Elements | ElementName::ArPackages | ElementName::FibexElementRefConditional | ElementName::CanClusterConditional | ElementName::PhysicalChannels | ElementName::FibexElementRef | ElementName::ApplicationInterface
        );
        if (tree || refs) && i > 0 && movable_out {
            // the other direction: this element into every fitting place of the other model
            for (fi, fe) in fl.iter().enumerate() {
                if fe.element_type().find_sub_element(e.element_name(), u32::MAX).is_some() {
                    ops.push(Op::MoveOut(fi, i));
                    if all || core {
                        ops.push(Op::CopyOut(fi, i));
                    }
                }
            }
        }
        if e.element_name() == ElementName::ShortName && (tree || refs) {
            for item in ["a1", "a10"] {
                ops.push(Op::SetCdata(i, item.to_string()));
            }
            if all {
                ops.push(Op::RemoveCdata(i));
            }
        }
        if e.is_reference() && (refs || all) {
            for t in &ref_texts {
                ops.push(Op::SetCdata(i, t.clone()));
            }
            ops.push(Op::RemoveCdata(i));
            for (j, t) in l.iter().enumerate() {
                if t.is_identifiable() || (all && j % 6 == 0) {
                    ops.push(Op::SetRefTarget(i, Src::Live(j)));
                }
            }
            if !fl.is_empty() {
                ops.push(Op::SetRefTarget(i, Src::Foreign(fl.len() - 1)));
            }
            for (a, vals) in [("DEST", vec!["CAN-CLUSTER", "ECU-INSTANCE", "ABSTRACT"])] {
                for v in vals {
                    ops.push(Op::SetAttr(i, a, v));
                }
                ops.push(Op::RemoveAttr(i, a));
            }
        }
        if (all || tree || refs) && e.element_name() == ElementName::L2 {
            // mixed content: the text replaces everything, sub-elements included
            ops.push(Op::SetCdata(i, "x".into()));
            ops.push(Op::RemoveCdata(i));
        }
        if all {
            if e.element_name() == ElementName::Category || e.element_name() == ElementName::Elements {
                ops.push(Op::SetCdata(i, "x".into()));
                ops.push(Op::RemoveCdata(i));
            }
            if matches!(e.element_name(), ElementName::ArPackage | ElementName::L2 | ElementName::System) {
                ops.push(Op::SetAttrStr(i, "UUID", "u1"));
                ops.push(Op::SetAttrStr(i, "DEST", "CAN-CLUSTER"));
                ops.push(Op::SetAttrStr(i, "DEST", "NO-SUCH-ITEM"));
                ops.push(Op::SetAttrStr(i, "L", "??"));
                ops.push(Op::SetAttrStr(i, "UUID", ""));
                ops.push(Op::RemoveAttr(i, "UUID"));
                ops.push(Op::SetAttr(i, "L", "EN"));
                ops.push(Op::RemoveAttr(i, "L"));
            }
            if matches!(e.element_name(), ElementName::ArPackage | ElementName::L2 | ElementName::ShortName) {
                ops.push(Op::SetComment(i, Some("c")));
                ops.push(Op::SetComment(i, Some("a--b")));
                ops.push(Op::SetComment(i, None));
            }
            if e.element_name() == ElementName::L2 || e.element_name() == ElementName::Elements {
                for p in positions_ext(nchildren, all) {
                    ops.push(Op::InsertText(i, p));
                    ops.push(Op::RemoveText(i, p));
                }
            }
            if matches!(e.element_name(), ElementName::ArPackages | ElementName::Elements) {
                ops.push(Op::SortElem(i));
            }
        }
        if fileops {
            for (k, _) in files.iter().enumerate() {
                ops.push(Op::AddToFile(i, k));
                ops.push(Op::RemoveFromFile(i, k));
            }
            if all || i % 3 == 0 {
                ops.push(Op::AddToForeignFile(i));
                if w.held_files.iter().any(|f| !files.contains(f)) {
                    ops.push(Op::AddToRemovedFile(i));
                }
                ops.push(Op::RemoveFromForeignFile(i));
            }
        }
    }
    if fileops {
        for n in FILE_NAMES {
            ops.push(Op::CreateFile(n, true));
            if all {
                ops.push(Op::CreateFile(n, false));
            }
        }
        for (k, _) in files.iter().enumerate() {
            ops.push(Op::RemoveFile(k));
            ops.push(Op::SetVersion(k, true));
            ops.push(Op::SetVersion(k, false));
            for n in ["y.arxml", "w.arxml"] {
                ops.push(Op::SetFilename(k, n));
            }
        }
    }
    if fileops || refs {
        for (d, (doc_name, _)) in load_docs().iter().enumerate() {
            ops.push(Op::Load(d, true));
            if all || *doc_name == "lenient-only" {
                ops.push(Op::Load(d, false));
            }
        }
    }
    ops
}

#[derive(Debug, Clone)]
pub enum Outcome {
    Ok(Option<Element>),
    Err(String),
    Panic(String, String),
}
impl Outcome {
    pub fn class(&self) -> String {
        match self {
            Outcome::Ok(_) => "Ok".into(),
            Outcome::Err(c) => c.clone(),
            Outcome::Panic(..) => "PANIC".into(),
        }
    }
}

fn err_variant(e: &AutosarDataError) -> String {
    crate::props::c01::err_class(e)
}

/// does the operation return a Result (only those are judged by C11)?
pub fn apply(w: &mut World, op: &Op) -> Outcome {
    let l = live(&w.m);
    let fl = live(&w.other);
    let files = files_sorted(&w.m);
    let get = |i: usize| l.get(i).cloned();
    let src = |s: &Src| match s {
        Src::Live(i) => l.get(*i).cloned(),
        Src::Foreign(i) => fl.get(*i).cloned(),
    };
    let docs = load_docs();
    let r = guarded(|| -> Option<Result<Option<Element>, AutosarDataError>> {
        Some(match op {
            Op::Create(i, n) => get(*i)?.create_sub_element(n.0).map(Some),
            Op::CreateAt(i, n, p) => get(*i)?.create_sub_element_at(n.0, *p).map(Some),
            Op::CreateNamed(i, n, item) => get(*i)?.create_named_sub_element(n.0, item).map(Some),
            Op::CreateNamedAt(i, n, item, p) => get(*i)?.create_named_sub_element_at(n.0, item, *p).map(Some),
            Op::GetOrCreate(i, n) => get(*i)?.get_or_create_sub_element(n.0).map(Some),
            Op::GetOrCreateNamed(i, n, item) => get(*i)?.get_or_create_named_sub_element(n.0, item).map(Some),
            Op::Copy(i, s) => get(*i)?.create_copied_sub_element(&src(s)?).map(Some),
            Op::CopyAt(i, s, p) => get(*i)?.create_copied_sub_element_at(&src(s)?, *p).map(Some),
            Op::Move(i, s) => get(*i)?.move_element_here(&src(s)?).map(Some),
            Op::MoveAt(i, s, p) => get(*i)?.move_element_here_at(&src(s)?, *p).map(Some),
            Op::Remove(i, s) => get(*i)?.remove_sub_element(src(s)?).map(|_| None),
            Op::RemoveKind(i, n) => get(*i)?.remove_sub_element_kind(n.0).map(|_| None),
            Op::Rename(i, item) => get(*i)?.set_item_name(item).map(|_| None),
            Op::SetCdata(i, t) => get(*i)?.set_character_data(t.as_str()).map(|_| None),
            Op::MoveOut(fi, j) => fl.get(*fi)?.move_element_here(&get(*j)?).map(Some),
            Op::CopyOut(fi, j) => fl.get(*fi)?.create_copied_sub_element(&get(*j)?).map(Some),
            Op::RemoveCdata(i) => get(*i)?.remove_character_data().map(|_| None),
            Op::InsertText(i, p) => get(*i)?.insert_character_content_item("txt", *p).map(|_| None),
            Op::RemoveText(i, p) => get(*i)?.remove_character_content_item(*p).map(|_| None),
            Op::SetRefTarget(i, s) => get(*i)?.set_reference_target(&src(s)?).map(|_| None),
            Op::SetAttr(i, a, v) => {
                let an: AttributeName = a.parse().ok()?;
                let item: EnumItem = v.parse().ok()?;
                get(*i)?.set_attribute(an, item).map(|_| None)
            }
            Op::SetAttrStr(i, a, v) => get(*i)?.set_attribute_string(a.parse().ok()?, v).map(|_| None),
            Op::RemoveAttr(i, a) => {
                let _ = get(*i)?.remove_attribute(a.parse().ok()?);
                Ok(None)
            }
            Op::SetComment(i, c) => {
                get(*i)?.set_comment(c.map(|s| s.to_string()));
                Ok(None)
            }
            Op::SortModel => {
                w.m.sort();
                Ok(None)
            }
            Op::SortElem(i) => {
                get(*i)?.sort();
                Ok(None)
            }
            Op::CreateFile(n, latest) => w.m.create_file(n, if *latest { V50 } else { V49 }).map(|_| None),
            Op::RemoveFile(k) => {
                w.m.remove_file(files.get(*k)?);
                Ok(None)
            }
            Op::AddToFile(i, k) => get(*i)?.add_to_file(files.get(*k)?).map(|_| None),
            Op::AddToForeignFile(i) => get(*i)?.add_to_file(&w.other.files().next()?).map(|_| None),
            Op::AddToRemovedFile(i) => get(*i)?.add_to_file(w.held_files.iter().find(|f| !files.contains(f))?).map(|_| None),
            Op::RemoveFromForeignFile(i) => get(*i)?.remove_from_file(&w.other.files().next()?).map(|_| None),
            Op::RemoveFromFile(i, k) => get(*i)?.remove_from_file(files.get(*k)?).map(|_| None),
            Op::SetFilename(k, n) => files.get(*k)?.set_filename(n).map(|_| None),
            Op::SetVersion(k, latest) => files.get(*k)?.set_version(if *latest { V50 } else { V49 }).map(|_| None),
            Op::Load(d, strict) => w.m.load_buffer(docs.get(*d)?.1.as_bytes(), format!("load{d}.arxml"), *strict).map(|_| None),
        })
    });
    match r {
        Err(msg) => Outcome::Panic(msg, last_panic_loc()),
        Ok(None) => Outcome::Err("NotApplicable".into()),
        Ok(Some(Ok(e))) => Outcome::Ok(e),
        Ok(Some(Err(e))) => Outcome::Err(err_variant(&e)),
    }
}

// ------------------------------------------------------------------------------------------------ canonical form

pub struct Canon {
    pub files: String,
    pub tree: String,
    pub index: String,
    pub referrers: String,
}
impl Canon {
    pub fn whole(&self) -> String {
        format!("{}\n#T {}\n#I {}\n#R {}", self.files, self.tree, self.index, self.referrers)
    }
    pub fn diff_sections(&self, o: &Canon) -> Vec<&'static str> {
        let mut v = vec![];
        if self.tree != o.tree {
            v.push("tree");
        }
        if self.files != o.files {
            v.push("files");
        }
        if self.index != o.index {
            v.push("path-index");
        }
        if self.referrers != o.referrers {
            v.push("referrer-lists");
        }
        v
    }
}

pub fn canon(m: &AutosarModel) -> Canon {
    use std::fmt::Write;
    let files_list = files_sorted(m);
    let mut files = String::new();
    for f in &files_list {
        let text = guarded(|| f.serialize()).map(|r| r.unwrap_or_else(|e| format!("ERR {e}"))).unwrap_or_else(|p| format!("PANIC {p}"));
        let _ = write!(files, "F {:?} {:?} {:?}\n{}\n", f.filename(), f.version(), f.xml_standalone(), text);
    }
    let w = walk(m);
    let idx: HashMap<Element, usize> = w.iter().enumerate().map(|(i, (_, e))| (e.clone(), i)).collect();
    let mut tree = String::new();
    for (i, (d, e)) in w.iter().enumerate() {
        let _ = write!(tree, "{i}:{d}:{}", e.element_name());
        if i > 0 {
            for a in e.attributes() {
                let _ = write!(tree, " {}={:?}", a.attrname, Val::from_cdata(&a.content));
            }
        }
        if let Some(c) = e.comment() {
            let _ = write!(tree, " #{c:?}");
        }
        for it in e.content() {
            if let ElementContent::CharacterData(c) = it {
                let _ = write!(tree, " {:?}", Val::from_cdata(&c));
            } else {
                tree.push_str(" *");
            }
        }
        match e.file_membership() {
            Ok((local, set)) => {
                let mut names: Vec<String> = set.iter().map(|f| f.upgrade().map_or("<dead>".into(), |f| f.filename().display().to_string())).collect();
                names.sort();
                let _ = write!(tree, " ({}{})", if local { "L:" } else { "I:" }, names.join(","));
            }
            Err(_) => tree.push_str(" (none)"),
        }
        tree.push('\n');
    }
    let num = |wk: &WeakElement| match wk.upgrade() {
        None => "dead".to_string(),
        Some(e) => idx.get(&e).map_or("detached".to_string(), |i| i.to_string()),
    };
    let mut ids: Vec<String> = m.identifiable_elements().map(|(p, wk)| format!("{p}={}", num(&wk))).collect();
    ids.sort();
    let index = ids.join(",");
    let mut keys: BTreeSet<String> = m.verif_reference_origin_keys().into_iter().collect();
    for (_, e) in &w {
        if e.is_reference() {
            if let Some(CharacterData::String(t)) = e.character_data() {
                keys.insert(t);
            }
        }
    }
    let mut referrers = String::new();
    for k in keys {
        let mut v: Vec<String> = m.get_references_to(&k).iter().map(num).collect();
        v.sort();
        let _ = write!(referrers, "{k}<-{v:?};");
    }
    Canon { files, tree, index, referrers }
}

pub fn hash_str(s: &str) -> u64 {
    let mut h = std::collections::hash_map::DefaultHasher::new();
    s.hash(&mut h);
    h.finish()
}

// ------------------------------------------------------------------------------------------------ oracles

#[derive(Debug, Clone)]
pub struct Finding {
    pub prop: &'static str,
    pub key: String,
    pub detail: String,
}
fn fd(prop: &'static str, key: impl Into<String>, detail: impl Into<String>) -> Finding {
    Finding { prop, key: key.into(), detail: detail.into() }
}

pub struct PreState {
    pub file_names: Vec<String>,
    pub file_texts: Vec<(String, String)>,
    /// effective membership (file names) per live element, parent index per live element
    pub membership: Vec<BTreeSet<String>>,
    pub parents: Vec<Option<usize>>,
    pub canon: Canon,
    pub canon_other: Canon,
    pub refs: Vec<(Element, String, Option<Element>)>,
    /// the same for the other model: reference element, its text, the element it designated
    pub refs_other: Vec<(Element, String, Option<Element>)>,
    pub paths: HashMap<String, Element>,
    pub live: Vec<Element>,
    /// children (elements only) of every live element, for order checks after a move
    pub children: Vec<Vec<Element>>,
}

pub fn pre_state(w: &World) -> PreState {
    let paths: HashMap<String, Element> = expected_paths(&w.m).into_iter().collect();
    let l = live(&w.m);
    let refs = l
        .iter()
        .filter(|e| e.is_reference())
        .filter_map(|e| e.character_data().and_then(|c| c.string_value()).map(|t| (e.clone(), t.clone(), paths.get(&t).cloned())))
        .collect();
    let files = files_sorted(&w.m);
    let file_names: Vec<String> = files.iter().map(|f| f.filename().display().to_string()).collect();
    let file_texts: Vec<(String, String)> = files.iter().filter_map(|f| f.serialize().ok().map(|t| (f.filename().display().to_string(), t))).collect();
    let membership: Vec<BTreeSet<String>> = l
        .iter()
        .map(|e| e.file_membership().map(|(_, s)| s.iter().filter_map(|f| f.upgrade()).map(|f| f.filename().display().to_string()).collect()).unwrap_or_default())
        .collect();
    let idx: HashMap<Element, usize> = l.iter().enumerate().map(|(i, e)| (e.clone(), i)).collect();
    let parents: Vec<Option<usize>> = l.iter().map(|e| e.parent().ok().flatten().and_then(|p| idx.get(&p).copied())).collect();
    let paths_other: HashMap<String, Element> = expected_paths(&w.other).into_iter().collect();
    let refs_other = live(&w.other)
        .iter()
        .filter(|e| e.is_reference())
        .filter_map(|e| e.character_data().and_then(|c| c.string_value()).map(|t| (e.clone(), t.clone(), paths_other.get(&t).cloned())))
        .collect();
    let children: Vec<Vec<Element>> = l.iter().map(|e| e.sub_elements().collect()).collect();
    PreState { file_names, file_texts, membership, parents, canon: canon(&w.m), canon_other: canon(&w.other), refs, refs_other, paths, live: l, children }
}

/// relation of the elements involved, for classification of spurious lock conflicts
fn relation(l: &[Element], a: usize, b: &Src) -> &'static str {
    let Src::Live(b) = b else { return "foreign" };
    let (Some(x), Some(y)) = (l.get(a), l.get(*b)) else { return "n/a" };
    let is_anc = |anc: &Element, e: &Element| {
        let mut cur = e.parent().ok().flatten();
        while let Some(p) = cur {
            if &p == anc {
                return true;
            }
            cur = p.parent().ok().flatten();
        }
        false
    };
    if x == y {
        "same-element"
    } else if is_anc(x, y) {
        if y.parent().ok().flatten().as_ref() == Some(x) {
            "source-is-child-of-destination"
        } else {
            "source-is-descendant-of-destination"
        }
    } else if is_anc(y, x) {
        "destination-is-inside-source"
    } else {
        "unrelated"
    }
}

/// all transition oracles for `op` applied in `pre`, with outcome `out` and the world after
pub fn transition_oracles(w: &World, pre: &PreState, op: &Op, out: &Outcome) -> Vec<Finding> {
    let mut f = vec![];
    let kind = op_kind(op);
    // C12: panics, spurious lock conflicts, self conflicts
    let events = seqhook::take_events();
    match out {
        Outcome::Panic(msg, loc) => {
            if msg.contains("self-deadlock") {
                f.push(fd("C12", format!("self-deadlock|{kind}"), msg.clone()));
            } else {
                f.push(fd("C12", format!("panic|{kind}|{loc}"), msg.clone()));
            }
        }
        Outcome::Err(c) if c == "ParentElementLocked" => {
            let rel = match op {
                Op::Move(i, s) | Op::MoveAt(i, s, _) | Op::Copy(i, s) | Op::CopyAt(i, s, _) | Op::Remove(i, s) => relation(&pre.live, *i, s),
                _ => "n/a",
            };
            f.push(fd("C12", format!("ParentElementLocked|{kind}|{rel}"), format!("self-conflicts: {events:?}")));
        }
        _ => {}
    }
    if seqhook::held_count() != 0 {
        f.push(fd("C12", format!("lock-still-held-after-call|{kind}"), ""));
        seqhook::reset();
    }
    let after = canon(&w.m);
    let after_other = canon(&w.other);
    // C11: failed operations have no effect
    if let Outcome::Err(class) = out {
        if class != "NotApplicable" {
            let mut changed = pre.canon.diff_sections(&after);
            if !pre.canon_other.diff_sections(&after_other).is_empty() {
                changed.push("other-model");
            }
            if !changed.is_empty() {
                // the lines that differ (first 12), for the witness
                let whole_before = format!("{}\n{}", pre.canon.whole(), pre.canon_other.whole());
                let whole_after = format!("{}\n{}", after.whole(), after_other.whole());
                let (b, a): (Vec<&str>, Vec<&str>) = (whole_before.lines().collect(), whole_after.lines().collect());
                let mut d: Vec<String> = b.iter().filter(|l| !a.contains(l)).map(|l| format!("- {l}")).collect();
                d.extend(a.iter().filter(|l| !b.contains(l)).map(|l| format!("+ {l}")));
                d.truncate(12);
                f.push(fd("C11", format!("{kind}|{class}|changed:{}", changed.join("+")), d.join(" | ")));
            }
        }
    }
    // C13: a copy of an element whose kind the destination permits in its own version (the lowest version of the files that
    // contain the destination, not of all files of the model) is not refused for being invalid there
    if let (Op::Copy(i, s) | Op::CopyAt(i, s, _), Outcome::Err(class)) = (op, out) {
        let srcs = match s {
            Src::Live(j) => pre.live.get(*j).cloned(),
            Src::Foreign(j) => live(&w.other).get(*j).cloned(),
        };
        if let (Some(srce), Some(dst)) = (srcs, pre.live.get(*i)) {
            if class.contains("InvalidSubElement") || class.contains("ElementInsertionConflict") {
                if let Some(v) = own_min_version(dst) {
                    let names: Vec<ElementName> = dst.sub_elements().map(|c| c.element_name()).collect();
                    let mut fits_somewhere = false;
                    for pos in 0..=names.len() {
                        let mut n2 = names.clone();
                        n2.insert(pos, srce.element_name());
                        if dst.element_type().find_sub_element(srce.element_name(), v as u32).is_some() && crate::props::c07::valid_children(dst.element_type(), v, &n2) {
                            fits_somewhere = true;
                        }
                    }
                    if fits_somewhere && matches!(op, Op::Copy(..)) {
                        f.push(fd("C13", "copy|refused-although-the-destination-permits-the-element-in-its-version", format!("{} into {} ({v:?}): {class}", srce.element_name(), dst.element_name())));
                    }
                }
            }
        }
    }
    if let Outcome::Ok(_) = out {
        // C06: references follow their target through rename and same-model move
        let moved: Option<Element> = match op {
            Op::Rename(i, _) => pre.live.get(*i).cloned(),
            Op::Move(_, Src::Live(j)) | Op::MoveAt(_, Src::Live(j), _) => pre.live.get(*j).cloned(),
            _ => None,
        };
        if let Some(moved) = moved {
            let subset: HashSet<Element> = walk_from(&moved).into_iter().map(|(_, e)| e).collect();
            let after_paths: HashMap<String, Element> = expected_paths(&w.m).into_iter().collect();
            let old_prefix = pre.paths.iter().find(|(_, e)| **e == moved).map(|(p, _)| p.clone());
            for (r, old_text, old_target) in &pre.refs {
                let new_text = r.character_data().and_then(|c| c.string_value());
                match old_target {
                    Some(t) if subset.contains(t) => {
                        let now = new_text.as_ref().and_then(|t| after_paths.get(t));
                        if now != Some(t) {
                            f.push(fd("C06", format!("{kind}|reference-lost-its-target"), format!("{old_text} -> {new_text:?}")));
                        }
                    }
                    Some(t) => {
                        // a reference to an element outside the moved subtree keeps its text and still designates that element
                        if new_text.as_deref() != Some(old_text.as_str()) {
                            f.push(fd("C06", format!("{kind}|unrelated-reference-text-changed"), format!("{old_text} -> {new_text:?}")));
                        } else if w.m.get_element_by_path(old_text).as_ref() != Some(t) {
                            f.push(fd("C06", format!("{kind}|unrelated-reference-designates-another-element-now"), old_text.clone()));
                        }
                    }
                    _ => {
                        // dangling references below the old path of the moved element: either outcome accepted (DESIGN section 8)
                        let below = old_target.is_none() && old_prefix.as_ref().is_some_and(|p| old_text.strip_prefix(p.as_str()).is_some_and(|s| s.is_empty() || s.starts_with('/')));
                        if !below && new_text.as_deref() != Some(old_text.as_str()) {
                            f.push(fd("C06", format!("{kind}|unrelated-reference-text-changed"), format!("{old_text} -> {new_text:?}")));
                        }
                    }
                }
            }
        }
        // C06: move to another model (either direction): a reference inside the moved subtree that designated an element of
        // the moved subtree (the moved element itself included) designates the same element afterwards
        let cross: Option<(&Vec<(Element, String, Option<Element>)>, &AutosarModel)> = match op {
            Op::Move(_, Src::Foreign(_)) => Some((&pre.refs_other, &w.m)),
            Op::MoveOut(..) => Some((&pre.refs, &w.other)),
            _ => None,
        };
        if let (Some((refs_before, dest_model)), Outcome::Ok(Some(mv))) = (cross, out) {
            let subset: HashSet<Element> = walk_from(mv).into_iter().map(|(_, e)| e).collect();
            let dest_paths: HashMap<String, Element> = expected_paths(dest_model).into_iter().collect();
            for (r, old_text, old_target) in refs_before {
                if !subset.contains(r) {
                    continue;
                }
                if let Some(t) = old_target {
                    if subset.contains(t) {
                        let new_text = r.character_data().and_then(|c| c.string_value());
                        if new_text.as_ref().and_then(|nt| dest_paths.get(nt)) != Some(t) {
                            f.push(fd("C06", format!("{kind}|reference-inside-moved-subtree-lost-its-target"), format!("{old_text} -> {new_text:?}")));
                        }
                    }
                }
            }
        }
        // C03: a move to a position puts the element exactly there and keeps the order of all other children
        if let (Op::MoveAt(i, src, p), Outcome::Ok(Some(mv))) = (op, out) {
            if let Some(dst) = pre.live.get(*i) {
                let now: Vec<Element> = dst.sub_elements().collect();
                let before: Vec<Element> = pre.children.get(*i).cloned().unwrap_or_default().into_iter().filter(|e| e != mv).collect();
                let others_now: Vec<Element> = now.iter().filter(|e| *e != mv).cloned().collect();
                if others_now != before {
                    f.push(fd("C03", format!("{kind}|order-of-the-other-children-changed"), format!("{src:?} to position {p}")));
                }
                // `p` counts content items; the seeds' parents of movable elements hold no text items, so it is the element index
                if dst.content_item_count() == now.len() && mv.position() != Some(*p) && mv.position() != Some((*p).min(now.len() - 1)) {
                    f.push(fd("C03", format!("{kind}|element-not-at-the-requested-position"), format!("{src:?} requested {p}, is at {:?}", mv.position())));
                }
            }
        }
        // C13: deep copy faithful and independent
        if let (Op::Copy(_, s) | Op::CopyAt(_, s, _), Outcome::Ok(Some(copy))) = (op, out) {
            let srcs = match s {
                Src::Live(j) => pre.live.get(*j).cloned(),
                Src::Foreign(j) => live(&w.other).get(*j).cloned(),
            };
            if let Some(srce) = srcs {
                let a = snapshot(copy);
                // expected content: the source, minus what is not permitted in the destination's version
                let dest_version = own_min_version(copy).unwrap_or(AutosarVersion::LATEST);
                // judged by the type the element has at the destination in the destination's version
                let dest_type = copy
                    .parent()
                    .ok()
                    .flatten()
                    .and_then(|p| p.element_type().find_sub_element(copy.element_name(), dest_version as u32))
                    .map_or(srce.element_type(), |(t, _)| t);
                let b = match crate::common::specvalid::spec_filter(&snapshot(&srce), dest_type, dest_version) {
                    Some(b) => b,
                    None => {
                        f.push(fd("C13", "copy|succeeds-although-a-required-attribute-is-not-permitted-in-the-destination-version", ""));
                        snapshot(&srce)
                    }
                };
                let mut a_cmp = a.clone();
                if let (Some(n1), Some(n0)) = (copy.item_name(), srce.item_name()) {
                    if n1 != n0 {
                        // the source's name plus a numeric suffix; a name that would exceed the 128 characters a SHORT-NAME may have
                        // keeps as much of the source's name as fits in front of the suffix
                        let digits = |d: &str| !d.is_empty() && d.bytes().all(|c| c.is_ascii_digit());
                        let suffix_ok = n1.strip_prefix(&format!("{n0}_")).is_some_and(digits)
                            || (n1.len() == 128 && n1.rsplit_once('_').is_some_and(|(base, d)| digits(d) && n0.starts_with(base) && n0.len() + 1 + d.len() > 128));
                        if n1.len() > 128 {
                            f.push(fd("C13", "copy|renamed-copy-has-a-name-longer-than-a-short-name-may-be", format!("{n0} -> {n1}")));
                        }
                        if !suffix_ok {
                            f.push(fd("C13", "copy|renamed-copy-has-unexpected-name", format!("{n0} -> {n1}")));
                        }
                        if let Some(Item::Node(sn)) = a_cmp.items.first_mut() {
                            sn.items = vec![Item::Text(Val::Str(n0))];
                        }
                    }
                }
                if let Some(d) = a_cmp.diff(&b, "") {
                    f.push(fd("C13", format!("copy|content-differs-from-source|{}", crate::props::c01::diff_class(&d)), d));
                }
                let sub: Vec<Element> = walk_from(copy).into_iter().map(|(_, e)| e).collect();
                let src_sub: HashSet<Element> = walk_from(&srce).into_iter().map(|(_, e)| e).collect();
                if sub.iter().any(|e| src_sub.contains(e)) {
                    f.push(fd("C13", "copy|shares-element-objects-with-source", ""));
                }
                for e in &sub {
                    if e.is_identifiable() {
                        let p = e.path().ok();
                        if p.as_ref().and_then(|p| w.m.get_element_by_path(p)).as_ref() != Some(e) {
                            let nested = if e == copy { "copy-root" } else { "nested" };
                            f.push(fd("C13", format!("copy|copied-identifiable-not-found-by-its-path|{nested}"), format!("{p:?}")));
                        }
                    }
                    if e.is_reference() {
                        if let Some(CharacterData::String(t)) = e.character_data() {
                            if !w.m.get_references_to(&t).iter().any(|wk| wk.upgrade().as_ref() == Some(e)) {
                                f.push(fd("C13", "copy|copied-reference-not-listed-under-its-text", t));
                            }
                        }
                    }
                }
                // the copy's name is unique among its siblings, and every element that had a path before still answers to it
                if let (Some(n1), Ok(Some(parent))) = (copy.item_name(), copy.parent()) {
                    if parent.sub_elements().filter(|sib| sib != copy && sib.item_name().as_deref() == Some(n1.as_str())).count() > 0 {
                        f.push(fd("C13", "copy|name-of-the-copy-is-not-unique-among-its-siblings", n1));
                    }
                }
                if matches!(op, Op::Copy(..) | Op::CopyAt(..)) {
                    for (path, e) in &pre.paths {
                        if w.m.get_element_by_path(path).as_ref() != Some(e) {
                            f.push(fd("C13", "copy|existing-element-no-longer-found-by-its-path", path.clone()));
                            break;
                        }
                    }
                }
                // the source (and, for a foreign source, its whole model) is unchanged
                if matches!(s, Src::Foreign(_)) && !pre.canon_other.diff_sections(&after_other).is_empty() {
                    f.push(fd("C13", "copy|source-model-changed", ""));
                }
            }
        }
        // C10: remove_file removes exactly the elements attributed to that file alone and leaves every other file's text unchanged
        if let Op::RemoveFile(k) = op {
            if let Some(fname) = pre.file_names.get(*k) {
                let now: HashSet<Element> = live(&w.m).into_iter().collect();
                let gone: HashSet<usize> = (0..pre.live.len()).filter(|i| !now.contains(&pre.live[*i])).collect();
                // expected: elements whose effective membership was {file}, and everything below them
                let mut expect_gone: HashSet<usize> = HashSet::new();
                for (i, e) in pre.live.iter().enumerate() {
                    let own = i > 0 && pre.membership[i].len() == 1 && pre.membership[i].contains(fname);
                    let parent_gone = e.parent().ok().flatten().is_none() && i > 0 && !now.contains(e);
                    let _ = parent_gone;
                    if own {
                        expect_gone.insert(i);
                    }
                }
                // descendants of removed elements
                let idx: HashMap<Element, usize> = pre.live.iter().enumerate().map(|(i, e)| (e.clone(), i)).collect();
                for (i, _) in pre.live.iter().enumerate() {
                    let mut cur = pre.parents[i];
                    while let Some(pi) = cur {
                        if expect_gone.contains(&pi) {
                            expect_gone.insert(i);
                            break;
                        }
                        cur = pre.parents[pi];
                    }
                }
                let _ = idx;
                if pre.file_names.len() > 1 && gone != expect_gone {
                    let extra = gone.difference(&expect_gone).count();
                    let missing = expect_gone.difference(&gone).count();
                    f.push(fd("C10", format!("remove_file|removed-elements-differ-from-those-attributed-to-the-file-alone|extra={}|missing={}", extra > 0, missing > 0), format!("removed {extra} too many, {missing} too few")));
                }
                // other files: text unchanged
                for (name, text) in &pre.file_texts {
                    if name != fname {
                        let after_text = files_sorted(&w.m).into_iter().find(|f| f.filename().display().to_string() == *name).and_then(|f| f.serialize().ok());
                        // the content, not the bytes: an element that lost its last child is written as <X/> instead of <X></X>
                        let content = |t: &str| {
                            let m2 = AutosarModel::new();
                            m2.load_buffer(t.as_bytes(), "c.arxml", false).ok().map(|_| snapshot_model(&m2))
                        };
                        if after_text.as_ref() != Some(text) && after_text.as_deref().and_then(content) != content(text) {
                            f.push(fd("C10", "remove_file|content-of-another-file-changed", name.clone()));
                        }
                    }
                }
            }
        }
    }
    // C14 (sort as an operation): content preserved, idempotent
    if matches!(op, Op::SortModel | Op::SortElem(_)) && matches!(out, Outcome::Ok(_)) {
        let mut a: Vec<String> = pre.canon.tree.lines().map(|l| l.splitn(3, ':').nth(2).unwrap_or("").to_string()).collect();
        let mut b: Vec<String> = after.tree.lines().map(|l| l.splitn(3, ':').nth(2).unwrap_or("").to_string()).collect();
        a.sort();
        b.sort();
        if a != b {
            f.push(fd("C14", format!("{kind}|multiset-of-elements-changed"), ""));
        }
    }
    f
}

/// invariants of the state after a transition, keyed with the operation kind that produced the state
pub fn state_invariants(w: &World, op: Option<&Op>) -> Vec<Finding> {
    state_invariants_tagged(w, op.map_or("after:seed".to_string(), |o| format!("after:{}", op_kind(o))))
}

/// `tag`: "after:<operation>" for a successful call, "after-failed:<operation>:<error>" for a failed one
pub fn state_invariants_tagged(w: &World, tag: String) -> Vec<Finding> {
    let after = tag.strip_prefix("after:").map(|s| s.to_string());
    let mut out = vec![];
    let scope = Scope { full_element_scope: true, extra_ref_keys: vec!["/a/a1".into(), "/a".into(), "/a1".into(), "/a10".into(), "/a/c".into(), "/nope".into()] };
    for (m, which) in [(&w.m, ""), (&w.other, "other-model|")] {
        match guarded(|| all_invariants(m, &scope)) {
            Ok(ps) => {
                for p in ps {
                    out.push(fd(p.prop, format!("{which}{}|{tag}", p.key), p.detail));
                }
            }
            Err(msg) => out.push(fd("C12", format!("panic|read-api-during-invariant-check|{}|{tag}", last_panic_loc()), msg)),
        }
    }
    let ev = seqhook::take_events();
    if !ev.is_empty() {
        // read-only API calls that run into the thread's own locks
        out.push(fd("C12", format!("self-conflict-in-read-api|{}|{tag}", ev[0].site), format!("{ev:?}")));
    }
    let _ = after;
    out
}

// ------------------------------------------------------------------------------------------------ stale / foreign handle sweep

pub const STALE_METHODS: [&str; 20] = [
    "parent", "named_parent", "model", "path", "file_membership", "min_version", "create_sub_element", "create_named_sub_element", "create_sub_element_at",
    "create_copied_sub_element(live)", "move_element_here(live)", "set_item_name", "remove_sub_element(own child)", "add_to_file", "remove_from_file",
    "live.move_element_here(stale)", "live.remove_sub_element(stale)", "live.set_reference_target(stale)", "get_or_create_sub_element", "remove_sub_element_kind",
];

/// every place-dependent request through every stale handle: must fail, must not change the live model
pub fn stale_sweep(w: &World, how: &str) -> (Vec<Finding>, u64) {
    let mut out = vec![];
    let mut calls = 0u64;
    let grave = w.graveyard();
    if grave.is_empty() {
        return (out, 0);
    }
    let before = canon(&w.m).whole();
    let l = live(&w.m);
    let live_pkgs = l.iter().find(|e| e.element_name() == ElementName::ArPackages).cloned();
    let live_ref = l.iter().find(|e| e.is_reference()).cloned();
    let live_named = l.iter().find(|e| e.is_identifiable()).cloned();
    let file = w.m.files().next();
    for s in grave.iter().take(12) {
        let sname = s.element_name();
        let local = s.file_membership().map(|(l, _)| l).unwrap_or(false);
        let tag = format!("{how}{}", if local { "+had-local-file-set" } else { "" });
        let mut rec = |method: &str, r: Result<bool, String>| {
            calls += 1;
            match r {
                Ok(true) => out.push(fd("C03", format!("stale|{method}|returns-Ok|{tag}"), format!("{sname}"))),
                Ok(false) => {}
                Err(msg) => out.push(fd("C12", format!("panic|stale-handle|{method}|{}", last_panic_loc()), msg)),
            }
        };
        rec("parent", guarded(|| s.parent().is_ok()));
        rec("named_parent", guarded(|| s.named_parent().is_ok()));
        rec("model", guarded(|| s.model().is_ok()));
        rec("path", guarded(|| s.is_identifiable() && s.path().is_ok()));
        rec("file_membership", guarded(|| s.file_membership().is_ok()));
        rec("min_version", guarded(|| s.min_version().is_ok()));
        rec("create_sub_element", guarded(|| [ElementName::Category, ElementName::Elements, ElementName::ArPackages, ElementName::ShortName].iter().any(|n| s.create_sub_element(*n).is_ok())));
        rec("create_named_sub_element", guarded(|| [ElementName::ArPackage, ElementName::System, ElementName::CanCluster].iter().any(|n| s.create_named_sub_element(*n, "zz").is_ok())));
        rec("create_sub_element_at", guarded(|| s.create_sub_element_at(ElementName::Category, 0).is_ok() || s.create_sub_element_at(ElementName::Elements, 1).is_ok()));
        rec("get_or_create_sub_element", guarded(|| s.get_or_create_sub_element(ElementName::Elements).is_ok() || s.get_or_create_sub_element(ElementName::Category).is_ok()));
        rec("remove_sub_element_kind", guarded(|| s.remove_sub_element_kind(ElementName::Elements).is_ok() || s.remove_sub_element_kind(ElementName::Category).is_ok()));
        if let Some(t) = &live_named {
            rec("create_copied_sub_element(live)", guarded(|| s.create_copied_sub_element(t).is_ok()));
            rec("move_element_here(live)", guarded(|| s.move_element_here(t).is_ok()));
        }
        rec("set_item_name", guarded(|| s.is_identifiable() && s.set_item_name("zz").is_ok()));
        rec("remove_sub_element(own child)", guarded(|| s.sub_elements().last().is_some_and(|c| c.element_name() != ElementName::ShortName && s.remove_sub_element(c).is_ok())));
        if let Some(f) = &file {
            rec("add_to_file", guarded(|| s.add_to_file(f).is_ok()));
            rec("remove_from_file", guarded(|| s.remove_from_file(f).is_ok()));
        }
        if let Some(lp) = &live_pkgs {
            rec("live.move_element_here(stale)", guarded(|| lp.move_element_here(s).is_ok()));
            rec("live.remove_sub_element(stale)", guarded(|| lp.remove_sub_element(s.clone()).is_ok()));
        }
        if let Some(r) = &live_ref {
            rec("live.set_reference_target(stale)", guarded(|| s.is_identifiable() && r.set_reference_target(s).is_ok()));
        }
    }
    let _ = seqhook::take_events();
    let after = canon(&w.m).whole();
    if before != after {
        out.push(fd("C03", format!("stale|call-through-stale-handle-changes-live-model|{how}"), String::new()));
    }
    (out, calls)
}

/// every read-only public method on every live element, file and the model: must not panic or block (C12)
pub fn read_api_sweep(w: &World, after: &str) -> (Vec<Finding>, u64) {
    let mut out = vec![];
    let mut calls = 0u64;
    let names = [ElementName::ShortName, ElementName::Category, ElementName::Elements, ElementName::FibexElements, ElementName::VariationPoint, ElementName::AdminData, ElementName::Autosar];
    for m in [&w.m, &w.other] {
        for e in live(m) {
            let mut rec = |method: &str, r: Result<(), String>| {
                calls += 1;
                if let Err(msg) = r {
                    let _ = after;
                    let key = if msg.contains("self-deadlock") { format!("self-deadlock|{method}") } else { format!("panic|{method}|{}", last_panic_loc()) };
                    out.push(fd("C12", key, format!("{}: {msg}", e.element_name())));
                }
            };
            rec("list_valid_sub_elements", guarded(|| drop(e.list_valid_sub_elements())));
            for n in names {
                for v in [AutosarVersion::Autosar_4_0_1, AutosarVersion::LATEST] {
                    rec("calc_element_insert_range", guarded(|| drop(e.calc_element_insert_range(n, v))));
                }
                rec("get_sub_element", guarded(|| drop(e.get_sub_element(n))));
            }
            rec("xml_path", guarded(|| drop(e.xml_path())));
            rec("serialize", guarded(|| drop(e.serialize())));
            rec("min_version", guarded(|| drop(e.min_version())));
            rec("named_parent", guarded(|| drop(e.named_parent())));
            rec("path", guarded(|| drop(e.path())));
            rec("item_name", guarded(|| drop(e.item_name())));
            rec("content_type", guarded(|| drop(e.content_type())));
            rec("character_data", guarded(|| drop(e.character_data())));
            rec("attributes", guarded(|| drop(e.attributes().count())));
            rec("get_reference_target", guarded(|| drop(e.get_reference_target())));
            rec("get_sub_element_at", guarded(|| drop((e.get_sub_element_at(0), e.get_sub_element_at(usize::MAX)))));
            rec("element_type", guarded(|| drop((e.element_type().is_ordered(), e.element_type().splittable(), e.element_type().std_restriction()))));
            rec("debug-format", guarded(|| drop(format!("{e:?}"))));
            rec("elements_dfs_with_max_depth", guarded(|| drop(e.elements_dfs_with_max_depth(usize::MAX).count())));
            rec("sort-order", guarded(|| drop(e.sub_elements().collect::<Vec<_>>().windows(2).map(|w| w[0].cmp(&w[1])).count())));
        }
        for f in m.files() {
            let mut rec = |method: &str, r: Result<(), String>| {
                calls += 1;
                if let Err(msg) = r {
                    out.push(fd("C12", format!("panic|file.{method}|{}", last_panic_loc()), msg));
                }
            };
            for v in [AutosarVersion::Autosar_4_0_1, AutosarVersion::Autosar_00049, AutosarVersion::LATEST] {
                rec("check_version_compatibility", guarded(|| drop(f.check_version_compatibility(v))));
            }
            rec("serialize", guarded(|| drop(f.serialize())));
            rec("elements_dfs", guarded(|| drop(f.elements_dfs().count())));
            rec("debug-format", guarded(|| drop(format!("{f:?}"))));
            rec("model", guarded(|| drop(f.model())));
        }
        let mut rec = |method: &str, r: Result<(), String>| {
            calls += 1;
            if let Err(msg) = r {
                out.push(fd("C12", format!("panic|model.{method}|{}", last_panic_loc()), msg));
            }
        };
        rec("serialize_files", guarded(|| drop(m.serialize_files())));
        rec("check_references", guarded(|| drop(m.check_references())));
        rec("identifiable_elements", guarded(|| drop(m.identifiable_elements().count())));
        rec("debug-format", guarded(|| drop(format!("{m:?}").len())));
        rec("duplicate", guarded(|| drop(m.duplicate())));
        rec("get_element_by_path", guarded(|| drop((m.get_element_by_path(""), m.get_element_by_path("/"), m.get_element_by_path("//"), m.get_element_by_path("/a/"), m.get_element_by_path("\u{0}")))));
    }
    let ev = seqhook::take_events();
    if !ev.is_empty() {
        out.push(fd("C12", format!("self-conflict-in-read-api|{}", ev[0].site), format!("{ev:?}")));
    }
    (out, calls)
}

// ------------------------------------------------------------------------------------------------ exploration

#[derive(Default)]
pub struct ExploreStats {
    pub states: u64,
    pub transitions: u64,
    pub failing_calls: u64,
    pub pruned: u64,
    pub co_findings: u64,
    pub stale_calls: u64,
    pub depth_completed: usize,
    pub capped: bool,
    pub outcomes: BTreeMap<String, u64>,
}

pub struct Config {
    pub seeds: Vec<&'static str>,
    pub profile: Profile,
    pub depth: usize,
    pub stale_sweep: bool,
    pub read_sweep: bool,
    pub wall_cap_s: f64,
    /// known-finding keys "PROP|key" of all properties: transitions that hit one are not expanded
    pub known: HashSet<String>,
}

pub fn replay_history(seed_name: &str, hist: &[Op]) -> World {
    let mut w = seed(seed_name);
    for op in hist {
        let _ = apply(&mut w, op);
        w.note_handles();
    }
    let _ = seqhook::take_events();
    w
}

pub struct TransitionResult {
    pub op: Op,
    pub outcome_class: String,
    pub findings: Vec<Finding>,
    pub canon_hash: u64,
    pub stale_calls: u64,
}

/// run one transition from scratch: seed, history, op, all oracles
pub fn run_transition(seed_name: &str, hist: &[Op], op: &Op, sweep: bool, read_sweep: bool) -> TransitionResult {
    let mut w = replay_history(seed_name, hist);
    let pre = pre_state(&w);
    // invariant violations that exist before the operation are attributed to the transition that introduced them
    let pre_existing: HashSet<(String, String)> = state_invariants_tagged(&w, String::new()).into_iter().map(|f| (f.prop.to_string(), f.key)).collect();
    let _ = seqhook::take_events();
    let out = apply(&mut w, op);
    let mut findings = transition_oracles(&w, &pre, op, &out);
    w.note_handles();
    let tag = match &out {
        Outcome::Ok(_) => format!("after:{}", op_kind(op)),
        other => format!("after-failed:{}:{}", op_kind(op), other.class()),
    };
    findings.extend(state_invariants_tagged(&w, tag.clone()).into_iter().filter(|f| {
        let base = f.key.strip_suffix(&tag).unwrap_or(&f.key).to_string();
        !pre_existing.contains(&(f.prop.to_string(), base))
    }));
    let mut stale_calls = 0;
    if read_sweep {
        let (fs, n) = read_api_sweep(&w, op_kind(op));
        findings.extend(fs);
        stale_calls += n;
    }
    if sweep {
        let how = match op {
            Op::RemoveFile(_) => "detached-by-remove_file",
            Op::RemoveFromFile(..) => "detached-by-remove_from_file",
            Op::Load(..) => "detached-by-load",
            _ => "removed",
        };
        let (fs, n) = stale_sweep(&w, how);
        findings.extend(fs);
        stale_calls = n;
    }
    let c = format!("{}\n||{}", canon(&w.m).whole(), canon(&w.other).whole());
    TransitionResult { op: op.clone(), outcome_class: out.class(), findings, canon_hash: hash_str(&c), stale_calls }
}

pub fn history_json(seed_name: &str, hist: &[Op], op: Option<&Op>) -> Value {
    json!({"seed": seed_name, "history": hist.iter().map(|o| format!("{o:?}")).collect::<Vec<_>>(), "op": op.map(|o| format!("{o:?}"))})
}

/// breadth-first exploration; `report` receives every finding with its witness
pub fn explore(cfg: &Config, ctx: &Ctx, report: &(dyn Fn(&Finding, Value) + Sync)) -> ExploreStats {
    // the wall cap applies to this run (one profile), not to the whole check
    let run_start = ctx.elapsed();
    let mut stats = ExploreStats::default();
    struct PerSeed {
        name: &'static str,
        seen: HashSet<(usize, u64)>,
        frontier: Vec<Vec<Op>>,
        depth_done: usize,
        exhausted: bool,
    }
    let mut per_seed: Vec<PerSeed> = vec![];
    for seed_name in &cfg.seeds {
        let mut seen: HashSet<(usize, u64)> = HashSet::new();
        // building a seed only uses public calls on valid input: a panic there is a finding (C12), not a harness failure
        let w0 = match guarded(|| seed(seed_name)) {
            Ok(w) => w,
            Err(msg) => {
                let loc = last_panic_loc();
                report(&fd("C12", format!("panic|seed-construction|{loc}"), msg.clone()), history_json(seed_name, &[], None));
                if ctx.prop != "C12" {
                    ctx.machinery_error(format!("seed {seed_name} cannot be built, the library panics at {loc} (a C12 matter): {msg}"));
                }
                continue;
            }
        };
        for fnd in state_invariants(&w0, None) {
            report(&fnd, history_json(seed_name, &[], None));
        }
        if cfg.read_sweep {
            let (fs, n) = read_api_sweep(&w0, "seed");
            stats.stale_calls += n;
            for fnd in fs {
                report(&fnd, history_json(seed_name, &[], None));
            }
        }
        if cfg.stale_sweep {
            let (fs, n) = stale_sweep(&w0, "seed");
            stats.stale_calls += n;
            for fnd in fs {
                report(&fnd, history_json(seed_name, &[], None));
            }
        }
        let c0 = format!("{}\n||{}", canon(&w0.m).whole(), canon(&w0.other).whole());
        seen.insert((0, hash_str(&c0)));
        stats.states += 1;
        per_seed.push(PerSeed { name: seed_name, seen, frontier: vec![vec![]], depth_done: 0, exhausted: false });
    }
    // level by level over all seeds (breadth first across seeds too): when the wall cap ends the run, every seed has been
    // explored to the same depth, give or take the level that was cut
    'levels: for depth in 1..=cfg.depth {
        for ps in per_seed.iter_mut() {
            if ps.exhausted {
                ps.depth_done = depth;
                continue;
            }
            // seeds that exist for one shape reached by a single call are explored one level less (at least one)
            if SHALLOW_SEEDS.contains(&ps.name) && depth > 1 && depth == cfg.depth {
                continue;
            }
            if ctx.elapsed() - run_start > cfg.wall_cap_s {
                stats.capped = true;
                break 'levels;
            }
            let seed_name = ps.name;
            let frontier = std::mem::take(&mut ps.frontier);
            // every (history, op) pair of this level
            let work: Vec<(usize, Op)> = frontier
                .par_iter()
                .enumerate()
                .flat_map_iter(|(hi, hist)| {
                    let w = replay_history(seed_name, hist);
                    ops_for(&w, cfg.profile).into_iter().map(move |op| (hi, op)).collect::<Vec<_>>()
                })
                .collect();
            // in chunks, so that the wall cap also ends a level that has begun (the level then does not count as completed)
            let mut results: Vec<(usize, TransitionResult)> = Vec::with_capacity(work.len());
            let mut level_cut = false;
            for chunk in work.chunks(20_000) {
                if ctx.elapsed() - run_start > cfg.wall_cap_s {
                    level_cut = true;
                    break;
                }
                results.extend(chunk.par_iter().map(|(hi, op)| (*hi, run_transition(seed_name, &frontier[*hi], op, cfg.stale_sweep, cfg.read_sweep))).collect::<Vec<_>>());
            }
            let mut next: BTreeMap<u64, Vec<Op>> = BTreeMap::new();
            for (hi, tr) in results {
                stats.transitions += 1;
                stats.stale_calls += tr.stale_calls;
                *stats.outcomes.entry(format!("{}:{}", op_kind(&tr.op), tr.outcome_class)).or_insert(0) += 1;
                if tr.outcome_class != "Ok" {
                    stats.failing_calls += 1;
                }
                // a transition that hits a known finding (of any property) is recorded and not expanded; what else the same
                // transition violates is a symptom of the same recorded root cause and is only counted
                let prune = tr.findings.iter().any(|f| cfg.known.contains(&format!("{}|{}", f.prop, f.key)));
                for fnd in &tr.findings {
                    if !prune || cfg.known.contains(&format!("{}|{}", fnd.prop, fnd.key)) {
                        report(fnd, history_json(seed_name, &frontier[hi], Some(&tr.op)));
                    } else {
                        stats.co_findings += 1;
                    }
                }
                if prune {
                    stats.pruned += 1;
                    continue;
                }
                if tr.outcome_class == "Ok" && !(0..=depth).any(|d| ps.seen.contains(&(d, tr.canon_hash))) {
                    let mut h = frontier[hi].clone();
                    h.push(tr.op.clone());
                    // deterministic representative: the smallest history
                    match next.get(&tr.canon_hash) {
                        Some(existing) if *existing <= h => {}
                        _ => {
                            next.insert(tr.canon_hash, h);
                        }
                    }
                }
            }
            for k in next.keys() {
                ps.seen.insert((depth, *k));
            }
            stats.states += next.len() as u64;
            if level_cut {
                stats.capped = true;
                break 'levels;
            }
            ps.frontier = next.into_values().collect();
            ps.depth_done = depth;
            if ps.frontier.is_empty() {
                ps.exhausted = true; // nothing left to explore: every deeper level is empty
            }
        }
    }
    stats.depth_completed = per_seed.iter().map(|p| if p.exhausted { cfg.depth } else if SHALLOW_SEEDS.contains(&p.name) && cfg.depth > 1 { p.depth_done + 1 } else { p.depth_done }).min().unwrap_or(0);
    stats
}

/// "PROP|key" of every known finding of every property
pub fn all_known_keys() -> HashSet<String> {
    let mut s = HashSet::new();
    if let Ok(text) = std::fs::read_to_string(format!("{VERIF_DIR}/known_findings.json")) {
        if let Ok(v) = serde_json::from_str::<Value>(&text) {
            for f in v["findings"].as_array().cloned().unwrap_or_default() {
                s.insert(format!("{}|{}", f["property"].as_str().unwrap_or(""), f["key"].as_str().unwrap_or("")));
            }
        }
    }
    s
}
