pub mod histx;
