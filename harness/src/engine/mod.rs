pub mod histx;
pub mod schedx;
