//! Abstract tree reference model: snapshot of an element through the public read API, structural
//! equality, and an independent XML printer.
use autosar_data::*;
use std::fmt::Write;

#[derive(Clone, PartialEq, Eq, Debug, Hash, PartialOrd, Ord)]
pub enum Val {
    Enum(String),
    Str(String),
    UInt(u64),
    /// f64 by bit pattern, all NaNs identified
    Float(u64),
    /// text that the printer emits verbatim (defect injection: malformed entities etc.); never produced by snapshot
    Raw(String),
}
impl Val {
    pub fn from_cdata(c: &CharacterData) -> Val {
        match c {
            CharacterData::Enum(e) => Val::Enum(e.to_str().to_string()),
            CharacterData::String(s) => Val::Str(s.clone()),
            CharacterData::UnsignedInteger(u) => Val::UInt(*u),
            CharacterData::Float(f) => Val::Float(if f.is_nan() { f64::NAN.to_bits() } else { f.to_bits() }),
        }
    }
    pub fn text(&self) -> String {
        match self {
            Val::Enum(s) | Val::Str(s) | Val::Raw(s) => s.clone(),
            Val::UInt(u) => u.to_string(),
            Val::Float(b) => f64::from_bits(*b).to_string(),
        }
    }
}

#[derive(Clone, PartialEq, Eq, Debug, Hash, PartialOrd, Ord)]
pub enum Item {
    Text(Val),
    Node(Node),
}

#[derive(Clone, PartialEq, Eq, Debug, Hash, PartialOrd, Ord)]
pub struct Node {
    pub name: String,
    pub attrs: Vec<(String, Val)>,
    pub items: Vec<Item>,
    pub comment: Option<String>,
}

impl Node {
    pub fn new(name: &str) -> Node {
        Node { name: name.to_string(), attrs: vec![], items: vec![], comment: None }
    }
    pub fn attr(mut self, n: &str, v: Val) -> Node {
        self.attrs.push((n.to_string(), v));
        self
    }
    pub fn child(mut self, n: Node) -> Node {
        self.items.push(Item::Node(n));
        self
    }
    pub fn text(mut self, v: Val) -> Node {
        self.items.push(Item::Text(v));
        self
    }
    pub fn children(&self) -> impl Iterator<Item = &Node> {
        self.items.iter().filter_map(|i| if let Item::Node(n) = i { Some(n) } else { None })
    }
    /// adjacent text items merged into one (recursively): XML cannot tell `[a, b]` from `[ab]`, so a model with two adjacent
    /// text items and its serialized and reloaded form are equivalent (DESIGN section 8)
    pub fn with_adjacent_text_merged(&self) -> Node {
        let mut out = Node { name: self.name.clone(), attrs: self.attrs.clone(), items: vec![], comment: self.comment.clone() };
        for it in &self.items {
            match it {
                Item::Node(n) => out.items.push(Item::Node(n.with_adjacent_text_merged())),
                Item::Text(v) => {
                    if let Some(Item::Text(prev)) = out.items.last_mut() {
                        *prev = Val::Str(format!("{}{}", prev.text(), v.text()));
                    } else {
                        out.items.push(Item::Text(v.clone()));
                    }
                }
            }
        }
        out
    }
    pub fn count_nodes(&self) -> usize {
        1 + self.children().map(|c| c.count_nodes()).sum::<usize>()
    }
    /// compact canonical rendering (for hashing / diffing / messages); not XML
    pub fn render(&self, out: &mut String) {
        out.push('<');
        out.push_str(&self.name);
        for (a, v) in &self.attrs {
            let _ = write!(out, " {a}={v:?}");
        }
        if let Some(c) = &self.comment {
            let _ = write!(out, " #{c:?}");
        }
        out.push('>');
        for it in &self.items {
            match it {
                Item::Text(v) => {
                    let _ = write!(out, "{v:?}");
                }
                Item::Node(n) => n.render(out),
            }
        }
        out.push_str("</>");
    }
    pub fn rendered(&self) -> String {
        let mut s = String::new();
        self.render(&mut s);
        s
    }
    /// first difference between two trees as a short description
    pub fn diff(&self, other: &Node, path: &str) -> Option<String> {
        let here = format!("{path}/{}", self.name);
        if self.name != other.name {
            return Some(format!("{here}: name {} vs {}", self.name, other.name));
        }
        if self.attrs != other.attrs {
            return Some(format!("{here}: attributes {:?} vs {:?}", self.attrs, other.attrs));
        }
        if self.comment != other.comment {
            return Some(format!("{here}: comment {:?} vs {:?}", self.comment, other.comment));
        }
        if self.items.len() != other.items.len() {
            let kinds = |n: &Node| {
                n.items
                    .iter()
                    .map(|i| match i {
                        Item::Text(v) => format!("{v:?}"),
                        Item::Node(n) => n.name.clone(),
                    })
                    .collect::<Vec<_>>()
                    .join(",")
            };
            return Some(format!("{here}: items [{}] vs [{}]", kinds(self), kinds(other)));
        }
        for (a, b) in self.items.iter().zip(other.items.iter()) {
            match (a, b) {
                (Item::Text(x), Item::Text(y)) => {
                    if x != y {
                        return Some(format!("{here}: text {x:?} vs {y:?}"));
                    }
                }
                (Item::Node(x), Item::Node(y)) => {
                    if let Some(d) = x.diff(y, &here) {
                        return Some(d);
                    }
                }
                _ => return Some(format!("{here}: item kind differs")),
            }
        }
        None
    }
}

/// snapshot through the public read API only
pub fn snapshot(e: &Element) -> Node {
    let mut n = Node::new(e.element_name().to_str());
    for a in e.attributes() {
        n.attrs.push((a.attrname.to_str().to_string(), Val::from_cdata(&a.content)));
    }
    n.comment = e.comment();
    for it in e.content() {
        match it {
            ElementContent::Element(s) => n.items.push(Item::Node(snapshot(&s))),
            ElementContent::CharacterData(c) => n.items.push(Item::Text(Val::from_cdata(&c))),
        }
    }
    n
}

/// snapshot of the root without the three header attributes (they depend on the file being serialized)
pub fn snapshot_model(m: &AutosarModel) -> Node {
    let mut n = snapshot(&m.root_element());
    n.attrs.clear();
    n
}

#[derive(Clone, Copy, Debug, PartialEq, Eq)]
pub enum Layout {
    /// newline + two-space indent before every tag of element-content parents (like the crate's own writer)
    Indented,
    /// no whitespace at all
    Compact,
    /// tabs, CRLF and trailing blanks between tags, blanks around values of non-preserving kinds
    Odd,
}
#[derive(Clone, Copy, Debug, PartialEq, Eq)]
pub enum Entity {
    Named,
    Decimal,
    Hex,
    /// only what XML forces: & and < everywhere, additionally > and the active quote inside attribute values
    Minimal,
}
#[derive(Clone, Copy, Debug)]
pub struct PrintOpts {
    pub layout: Layout,
    pub single_quotes: bool,
    pub entity: Entity,
    /// write `<X></X>` instead of `<X/>` for empty elements
    pub empty_pair: bool,
    pub bom: bool,
    pub standalone: Option<bool>,
}
impl Default for PrintOpts {
    fn default() -> Self {
        PrintOpts { layout: Layout::Indented, single_quotes: false, entity: Entity::Named, empty_pair: false, bom: false, standalone: None }
    }
}

pub fn escape(s: &str, ent: Entity, out: &mut String) {
    escape_ctx(s, ent, None, out)
}

/// `quote`: Some(q) inside an attribute value delimited by q
pub fn escape_ctx(s: &str, ent: Entity, quote: Option<char>, out: &mut String) {
    for c in s.chars() {
        let named = match c {
            '<' => Some("&lt;"),
            '>' => Some("&gt;"),
            '&' => Some("&amp;"),
            '"' => Some("&quot;"),
            '\'' => Some("&apos;"),
            _ => None,
        };
        match (named, ent) {
            (None, _) => out.push(c),
            (Some(n), Entity::Named) => out.push_str(n),
            (Some(_), Entity::Decimal) => {
                let _ = write!(out, "&#{};", c as u32);
            }
            (Some(_), Entity::Hex) => {
                let _ = write!(out, "&#x{:X};", c as u32);
            }
            (Some(n), Entity::Minimal) => {
                let forced = c == '&' || c == '<' || (quote.is_some() && (c == '>' || Some(c) == quote));
                if forced {
                    out.push_str(n)
                } else {
                    out.push(c)
                }
            }
        }
    }
}

pub fn header_attrs(version: AutosarVersion) -> String {
    format!(
        "xsi:schemaLocation=\"http://autosar.org/schema/r4.0 {}\" xmlns=\"http://autosar.org/schema/r4.0\" xmlns:xsi=\"http://www.w3.org/2001/XMLSchema-instance\"",
        super::specgraph::xsd_name(version)
    )
}

/// print a whole document; `root` must be the AUTOSAR node, its attrs are replaced by the standard header
pub fn print_document(root: &Node, version: AutosarVersion, o: &PrintOpts) -> String {
    let mut out = String::new();
    if o.bom {
        out.push('\u{feff}');
    }
    out.push_str("<?xml version=\"1.0\" encoding=\"utf-8\"");
    match o.standalone {
        Some(true) => out.push_str(" standalone=\"yes\""),
        Some(false) => out.push_str(" standalone=\"no\""),
        None => {}
    }
    out.push_str("?>");
    print_node(root, Some(version), 0, false, o, &mut out);
    out
}

fn sep(indent: usize, o: &PrintOpts, out: &mut String) {
    match o.layout {
        Layout::Indented => {
            out.push('\n');
            for _ in 0..indent {
                out.push_str("  ");
            }
        }
        Layout::Compact => {}
        Layout::Odd => {
            out.push_str(" \r\n\t");
            for _ in 0..(indent % 3) {
                out.push('\t');
            }
        }
    }
}

/// `inline`: the parent has mixed content, so no whitespace may be added around this node
pub fn print_node(n: &Node, root_version: Option<AutosarVersion>, indent: usize, inline: bool, o: &PrintOpts, out: &mut String) {
    if let Some(c) = &n.comment {
        if !inline {
            sep(indent, o, out);
        }
        out.push_str("<!--");
        out.push_str(c);
        out.push_str("-->");
    }
    if !inline {
        sep(indent, o, out);
    }
    out.push('<');
    out.push_str(&n.name);
    if let Some(v) = root_version {
        out.push(' ');
        out.push_str(&header_attrs(v));
    } else {
        let q = if o.single_quotes { '\'' } else { '"' };
        for (a, v) in &n.attrs {
            out.push(' ');
            out.push_str(a);
            out.push('=');
            out.push(q);
            match v {
                Val::Raw(r) => out.push_str(r),
                _ => escape_ctx(&v.text(), o.entity, Some(q), out),
            }
            out.push(q);
        }
    }
    if n.items.is_empty() {
        if o.empty_pair {
            out.push_str("></");
            out.push_str(&n.name);
            out.push('>');
        } else {
            out.push_str("/>");
        }
        return;
    }
    out.push('>');
    let has_text = n.items.iter().any(|i| matches!(i, Item::Text(_)));
    let has_nodes = n.items.iter().any(|i| matches!(i, Item::Node(_)));
    if has_text {
        // character or mixed content: everything inline
        for it in &n.items {
            match it {
                Item::Text(Val::Raw(r)) => out.push_str(r),
                Item::Text(v) => escape(&v.text(), o.entity, out),
                Item::Node(c) => print_node(c, None, indent + 1, true, o, out),
            }
        }
    } else if has_nodes {
        for it in &n.items {
            if let Item::Node(c) = it {
                print_node(c, None, indent + 1, inline, o, out);
            }
        }
        if !inline {
            sep(indent, o, out);
        }
    }
    out.push_str("</");
    out.push_str(&n.name);
    out.push('>');
}
