//! Reference model for pattern validators: own regex parser (subset used by the specification) -> NFA ->
//! complete DFA over bytes -> minimal DFA; state cover, characterisation set, byte classes.
use std::collections::{BTreeMap, BTreeSet, HashMap, VecDeque};

#[derive(Debug, Clone)]
enum Ast {
    Class([bool; 256]),
    Cat(Vec<Ast>),
    Alt(Vec<Ast>),
    Repeat(Box<Ast>, usize, Option<usize>),
}

struct Parser<'a> {
    s: &'a [u8],
    i: usize,
}
impl Parser<'_> {
    fn peek(&self) -> Option<u8> {
        self.s.get(self.i).copied()
    }
    fn alt(&mut self) -> Result<Ast, String> {
        let mut alts = vec![self.cat()?];
        while self.peek() == Some(b'|') {
            self.i += 1;
            alts.push(self.cat()?);
        }
        Ok(if alts.len() == 1 { alts.pop().unwrap() } else { Ast::Alt(alts) })
    }
    fn cat(&mut self) -> Result<Ast, String> {
        let mut items = vec![];
        while let Some(c) = self.peek() {
            if c == b'|' || c == b')' {
                break;
            }
            items.push(self.rep()?);
        }
        Ok(Ast::Cat(items))
    }
    fn rep(&mut self) -> Result<Ast, String> {
        let mut a = self.atom()?;
        loop {
            match self.peek() {
                Some(b'*') => {
                    self.i += 1;
                    a = Ast::Repeat(Box::new(a), 0, None);
                }
                Some(b'+') => {
                    self.i += 1;
                    a = Ast::Repeat(Box::new(a), 1, None);
                }
                Some(b'?') => {
                    self.i += 1;
                    a = Ast::Repeat(Box::new(a), 0, Some(1));
                }
                Some(b'{') => {
                    self.i += 1;
                    let start = self.i;
                    while self.peek().is_some_and(|c| c != b'}') {
                        self.i += 1;
                    }
                    let body = std::str::from_utf8(&self.s[start..self.i]).unwrap();
                    self.i += 1;
                    let (m, n) = match body.split_once(',') {
                        None => {
                            let m: usize = body.parse().map_err(|_| "bad {m}")?;
                            (m, Some(m))
                        }
                        Some((a, "")) => (a.parse().map_err(|_| "bad {m,}")?, None),
                        Some((a, b)) => (a.parse().map_err(|_| "bad {m,n}")?, Some(b.parse().map_err(|_| "bad {m,n}")?)),
                    };
                    a = Ast::Repeat(Box::new(a), m, n);
                }
                _ => break,
            }
        }
        Ok(a)
    }
    fn escape(&mut self) -> Result<[bool; 256], String> {
        let c = self.peek().ok_or("dangling backslash")?;
        self.i += 1;
        let mut set = [false; 256];
        match c {
            b'd' => (b'0'..=b'9').for_each(|b| set[b as usize] = true),
            b'.' | b'-' | b'+' | b'[' | b']' | b'(' | b')' | b'\\' | b'_' | b'/' | b'*' | b'?' | b'|' | b'{' | b'}' => set[c as usize] = true,
            other => return Err(format!("unsupported escape \\{}", other as char)),
        }
        Ok(set)
    }
    fn atom(&mut self) -> Result<Ast, String> {
        let c = self.peek().ok_or("unexpected end")?;
        self.i += 1;
        match c {
            b'(' => {
                let a = self.alt()?;
                if self.peek() != Some(b')') {
                    return Err("missing )".into());
                }
                self.i += 1;
                Ok(a)
            }
            b'[' => {
                let mut set = [false; 256];
                let mut negate = false;
                if self.peek() == Some(b'^') {
                    negate = true;
                    self.i += 1;
                }
                let mut first = true;
                loop {
                    let c = self.peek().ok_or("unterminated class")?;
                    if c == b']' && !first {
                        self.i += 1;
                        break;
                    }
                    first = false;
                    self.i += 1;
                    let lo: Vec<u8> = if c == b'\\' {
                        let e = self.escape()?;
                        (0..=255u8).filter(|b| e[*b as usize]).collect()
                    } else {
                        vec![c]
                    };
                    if lo.len() == 1 && self.peek() == Some(b'-') && self.s.get(self.i + 1).is_some_and(|n| *n != b']') {
                        self.i += 1;
                        let mut hi = self.peek().ok_or("bad range")?;
                        self.i += 1;
                        if hi == b'\\' {
                            hi = self.peek().ok_or("bad range")?;
                            self.i += 1;
                        }
                        if hi < lo[0] {
                            return Err("inverted range".into());
                        }
                        for b in lo[0]..=hi {
                            set[b as usize] = true;
                        }
                    } else {
                        for b in lo {
                            set[b as usize] = true;
                        }
                    }
                }
                if negate {
                    for b in set.iter_mut() {
                        *b = !*b;
                    }
                }
                Ok(Ast::Class(set))
            }
            b'.' => {
                let mut set = [true; 256];
                set[b'\n' as usize] = false;
                Ok(Ast::Class(set))
            }
            b'\\' => Ok(Ast::Class(self.escape()?)),
            b'*' | b'+' | b'?' | b'{' | b')' | b'|' => Err(format!("unexpected {}", c as char)),
            other => {
                let mut set = [false; 256];
                set[other as usize] = true;
                Ok(Ast::Class(set))
            }
        }
    }
}

struct Nfa {
    eps: Vec<Vec<usize>>,
    trans: Vec<Vec<(usize, usize)>>, // (class id, target)
    classes: Vec<[bool; 256]>,
}
impl Nfa {
    fn new_state(&mut self) -> usize {
        self.eps.push(vec![]);
        self.trans.push(vec![]);
        self.eps.len() - 1
    }
    /// returns (start, end)
    fn build(&mut self, a: &Ast) -> (usize, usize) {
        match a {
            Ast::Class(set) => {
                let s = self.new_state();
                let e = self.new_state();
                self.classes.push(*set);
                let cid = self.classes.len() - 1;
                self.trans[s].push((cid, e));
                (s, e)
            }
            Ast::Cat(items) => {
                let s = self.new_state();
                let mut cur = s;
                for it in items {
                    let (a, b) = self.build(it);
                    self.eps[cur].push(a);
                    cur = b;
                }
                (s, cur)
            }
            Ast::Alt(alts) => {
                let s = self.new_state();
                let e = self.new_state();
                for it in alts {
                    let (a, b) = self.build(it);
                    self.eps[s].push(a);
                    self.eps[b].push(e);
                }
                (s, e)
            }
            Ast::Repeat(inner, min, max) => {
                let s = self.new_state();
                let mut cur = s;
                for _ in 0..*min {
                    let (a, b) = self.build(inner);
                    self.eps[cur].push(a);
                    cur = b;
                }
                match max {
                    None => {
                        let (a, b) = self.build(inner);
                        let e = self.new_state();
                        self.eps[cur].push(a);
                        self.eps[cur].push(e);
                        self.eps[b].push(a);
                        self.eps[b].push(e);
                        (s, e)
                    }
                    Some(max) => {
                        let e = self.new_state();
                        for _ in *min..*max {
                            let (a, b) = self.build(inner);
                            self.eps[cur].push(a);
                            self.eps[cur].push(e);
                            cur = b;
                        }
                        self.eps[cur].push(e);
                        (s, e)
                    }
                }
            }
        }
    }
    fn closure(&self, set: &mut BTreeSet<usize>) {
        let mut stack: Vec<usize> = set.iter().copied().collect();
        while let Some(s) = stack.pop() {
            for &t in &self.eps[s] {
                if set.insert(t) {
                    stack.push(t);
                }
            }
        }
    }
}

#[derive(Clone)]
pub struct Dfa {
    /// trans[state][byte] -> state; complete (a sink state exists if needed)
    pub trans: Vec<[u16; 256]>,
    pub accept: Vec<bool>,
    pub start: u16,
}

impl Dfa {
    pub fn from_regex(re: &str) -> Result<Dfa, String> {
        let mut p = Parser { s: re.as_bytes(), i: 0 };
        let ast = p.alt()?;
        if p.i != re.len() {
            return Err(format!("trailing input at {}", p.i));
        }
        let mut nfa = Nfa { eps: vec![], trans: vec![], classes: vec![] };
        let (s, e) = nfa.build(&ast);
        // subset construction
        let mut start = BTreeSet::new();
        start.insert(s);
        nfa.closure(&mut start);
        let mut ids: HashMap<BTreeSet<usize>, u16> = HashMap::new();
        let mut sets = vec![start.clone()];
        ids.insert(start, 0);
        let mut trans: Vec<[u16; 256]> = vec![];
        let mut i = 0;
        while i < sets.len() {
            let cur = sets[i].clone();
            let mut row = [0u16; 256];
            // group bytes by target set
            let mut cache: HashMap<BTreeSet<usize>, u16> = HashMap::new();
            for b in 0..256usize {
                let mut tgt = BTreeSet::new();
                for &st in &cur {
                    for &(cid, t) in &nfa.trans[st] {
                        if nfa.classes[cid][b] {
                            tgt.insert(t);
                        }
                    }
                }
                if let Some(id) = cache.get(&tgt) {
                    row[b] = *id;
                    continue;
                }
                let key = tgt.clone();
                nfa.closure(&mut tgt);
                let id = match ids.get(&tgt) {
                    Some(id) => *id,
                    None => {
                        let id = sets.len() as u16;
                        if sets.len() >= 60000 {
                            return Err("DFA too large".into());
                        }
                        ids.insert(tgt.clone(), id);
                        sets.push(tgt);
                        id
                    }
                };
                cache.insert(key, id);
                row[b] = id;
            }
            trans.push(row);
            i += 1;
        }
        let accept: Vec<bool> = sets.iter().map(|st| st.contains(&e)).collect();
        Ok(Dfa { trans, accept, start: 0 }.minimized())
    }

    pub fn minimized(&self) -> Dfa {
        let n = self.trans.len();
        let mut part: Vec<usize> = self.accept.iter().map(|a| *a as usize).collect();
        loop {
            let mut sig: HashMap<(usize, Vec<usize>), usize> = HashMap::new();
            let mut next = vec![0usize; n];
            for s in 0..n {
                let key = (part[s], self.trans[s].iter().map(|t| part[*t as usize]).collect::<Vec<_>>());
                let l = sig.len();
                next[s] = *sig.entry(key).or_insert(l);
            }
            let changed = sig.len() != part.iter().collect::<BTreeSet<_>>().len();
            part = next;
            if !changed {
                break;
            }
        }
        // renumber in BFS order from the start state for determinism
        let mut order: Vec<usize> = vec![];
        let mut seen: BTreeMap<usize, u16> = BTreeMap::new();
        let mut q = VecDeque::new();
        let rep_of_block = |blk: usize| (0..n).find(|s| part[*s] == blk).unwrap();
        seen.insert(part[self.start as usize], 0);
        order.push(part[self.start as usize]);
        q.push_back(part[self.start as usize]);
        while let Some(blk) = q.pop_front() {
            let rep = rep_of_block(blk);
            for b in 0..256 {
                let tb = part[self.trans[rep][b] as usize];
                if !seen.contains_key(&tb) {
                    seen.insert(tb, order.len() as u16);
                    order.push(tb);
                    q.push_back(tb);
                }
            }
        }
        let mut trans = vec![];
        let mut accept = vec![];
        for blk in &order {
            let rep = rep_of_block(*blk);
            let mut row = [0u16; 256];
            for b in 0..256 {
                row[b] = seen[&part[self.trans[rep][b] as usize]];
            }
            trans.push(row);
            accept.push(self.accept[rep]);
        }
        Dfa { trans, accept, start: 0 }
    }

    pub fn n(&self) -> usize {
        self.trans.len()
    }
    pub fn run(&self, s: &[u8]) -> u16 {
        let mut st = self.start;
        for b in s {
            st = self.trans[st as usize][*b as usize];
        }
        st
    }
    pub fn accepts(&self, s: &[u8]) -> bool {
        self.accept[self.run(s) as usize]
    }
    /// the non-accepting state from which no accepting state is reachable, if any
    pub fn sink(&self) -> Option<u16> {
        (0..self.n()).find(|&s| !self.accept[s] && self.trans[s].iter().all(|t| *t as usize == s)).map(|s| s as u16)
    }
    /// bytes with identical columns form a class; returns class id per byte and one representative per class
    pub fn byte_classes(&self) -> (Vec<usize>, Vec<u8>) {
        let mut ids: HashMap<Vec<u16>, usize> = HashMap::new();
        let mut class = vec![0; 256];
        let mut reps = vec![];
        for b in 0..256usize {
            let col: Vec<u16> = self.trans.iter().map(|r| r[b]).collect();
            let l = ids.len();
            let id = *ids.entry(col).or_insert_with(|| {
                reps.push(b as u8);
                l
            });
            class[b] = id;
        }
        (class, reps)
    }
    /// shortest access string per state (BFS; bytes in ascending order prefer printable representatives)
    pub fn state_cover(&self) -> Vec<Vec<u8>> {
        let (_, reps) = self.byte_classes();
        let mut cover: Vec<Option<Vec<u8>>> = vec![None; self.n()];
        cover[self.start as usize] = Some(vec![]);
        let mut q = VecDeque::new();
        q.push_back(self.start);
        while let Some(s) = q.pop_front() {
            let base = cover[s as usize].clone().unwrap();
            for &b in &reps {
                let t = self.trans[s as usize][b as usize];
                if cover[t as usize].is_none() {
                    let mut w = base.clone();
                    w.push(b);
                    cover[t as usize] = Some(w);
                    q.push_back(t);
                }
            }
        }
        cover.into_iter().map(|c| c.expect("minimal DFA has only reachable states")).collect()
    }
    /// characterisation set: for every pair of states a shortest suffix that one accepts and the other does not
    pub fn characterisation_set(&self) -> Vec<Vec<u8>> {
        let n = self.n();
        let (_, reps) = self.byte_classes();
        // dist[p][q] = Some((byte, next pair)) / distinguished by empty string
        let mut w: BTreeSet<Vec<u8>> = BTreeSet::new();
        w.insert(vec![]);
        // iterative refinement keeping, per pair, the distinguishing string
        let mut dist: HashMap<(usize, usize), Vec<u8>> = HashMap::new();
        for p in 0..n {
            for q in (p + 1)..n {
                if self.accept[p] != self.accept[q] {
                    dist.insert((p, q), vec![]);
                }
            }
        }
        loop {
            let mut added = vec![];
            for p in 0..n {
                for q in (p + 1)..n {
                    if dist.contains_key(&(p, q)) {
                        continue;
                    }
                    for &b in &reps {
                        let (tp, tq) = (self.trans[p][b as usize] as usize, self.trans[q][b as usize] as usize);
                        if tp == tq {
                            continue;
                        }
                        let key = (tp.min(tq), tp.max(tq));
                        if let Some(suffix) = dist.get(&key) {
                            let mut s = vec![b];
                            s.extend_from_slice(suffix);
                            added.push(((p, q), s));
                            break;
                        }
                    }
                }
            }
            if added.is_empty() {
                break;
            }
            for (k, v) in added {
                dist.insert(k, v);
            }
        }
        for v in dist.values() {
            w.insert(v.clone());
        }
        w.into_iter().collect()
    }
    /// a shortest accepted string from each state that can reach acceptance
    pub fn shortest_members(&self) -> Vec<Option<Vec<u8>>> {
        let n = self.n();
        let (_, reps) = self.byte_classes();
        let mut best: Vec<Option<Vec<u8>>> = (0..n).map(|s| if self.accept[s] { Some(vec![]) } else { None }).collect();
        loop {
            let mut changed = false;
            for s in 0..n {
                for &b in &reps {
                    let t = self.trans[s][b as usize] as usize;
                    if let Some(suffix) = &best[t] {
                        if best[s].as_ref().is_none_or(|cur| cur.len() > suffix.len() + 1) {
                            let mut v = vec![b];
                            v.extend_from_slice(suffix);
                            best[s] = Some(v);
                            changed = true;
                        }
                    }
                }
            }
            if !changed {
                break;
            }
        }
        best
    }
}
