//! State invariants evaluated through the public API against the harness's own walk of the tree:
//! C03 (well-formed tree, iterators), C04 (path index), C05 (referrer lists, invalid-reference report),
//! C10 (file membership).
use autosar_data::*;
use std::collections::{BTreeMap, BTreeSet, HashMap, HashSet};

#[derive(Debug, Clone)]
pub struct Problem {
    pub prop: &'static str,
    pub key: String,
    pub detail: String,
}
fn p(prop: &'static str, key: impl Into<String>, detail: impl Into<String>) -> Problem {
    Problem { prop, key: key.into(), detail: detail.into() }
}

/// the harness's own walk: document order, with depth
pub fn walk(m: &AutosarModel) -> Vec<(usize, Element)> {
    fn rec(e: &Element, d: usize, out: &mut Vec<(usize, Element)>) {
        out.push((d, e.clone()));
        for it in e.content() {
            if let ElementContent::Element(s) = it {
                rec(&s, d + 1, out);
            }
        }
    }
    let mut v = vec![];
    rec(&m.root_element(), 0, &mut v);
    v
}
pub fn walk_from(e: &Element) -> Vec<(usize, Element)> {
    fn rec(e: &Element, d: usize, out: &mut Vec<(usize, Element)>) {
        out.push((d, e.clone()));
        for it in e.content() {
            if let ElementContent::Element(s) = it {
                rec(&s, d + 1, out);
            }
        }
    }
    let mut v = vec![];
    rec(e, 0, &mut v);
    v
}

/// expected path of every identifiable element by concatenating item names of identifiable ancestors-or-self
pub fn expected_paths(m: &AutosarModel) -> Vec<(String, Element)> {
    fn rec(e: &Element, prefix: &str, out: &mut Vec<(String, Element)>) {
        let mut pfx = prefix.to_string();
        if e.is_identifiable() {
            if let Some(n) = e.item_name() {
                pfx = format!("{prefix}/{n}");
                out.push((pfx.clone(), e.clone()));
            }
        }
        for it in e.content() {
            if let ElementContent::Element(s) = it {
                rec(&s, &pfx, out);
            }
        }
    }
    let mut v = vec![];
    rec(&m.root_element(), "", &mut v);
    v
}

pub struct Scope {
    /// element-scoped iterator checks on every element (quadratic) instead of only the top levels
    pub full_element_scope: bool,
    /// extra keys to query the referrer map with
    pub extra_ref_keys: Vec<String>,
}
impl Default for Scope {
    fn default() -> Self {
        Scope { full_element_scope: false, extra_ref_keys: vec![] }
    }
}

pub fn tree_invariants(m: &AutosarModel, scope: &Scope) -> Vec<Problem> {
    let mut out = vec![];
    let w = walk(m);
    let mut seen: HashSet<Element> = HashSet::new();
    for (_, e) in &w {
        if !seen.insert(e.clone()) {
            out.push(p("C03", "tree|element-occurs-twice", e.xml_path()));
        }
    }
    for (_, e) in &w {
        let mut subs_expected = vec![];
        for (i, it) in e.content().enumerate() {
            if let ElementContent::Element(sub) = it {
                subs_expected.push(sub.clone());
                match sub.parent() {
                    Ok(Some(par)) if par == *e => {}
                    other => out.push(p("C03", "tree|parent-link", format!("{} child {}: parent() = {:?}", e.xml_path(), sub.element_name(), other.map(|o| o.map(|x| x.xml_path()))))),
                }
                if sub.position() != Some(i) {
                    out.push(p("C03", "tree|position", format!("{} child {} at {i}: position() = {:?}", e.xml_path(), sub.element_name(), sub.position())));
                }
                if e.get_sub_element_at(i).as_ref() != Some(&sub) {
                    out.push(p("C03", "tree|get_sub_element_at", format!("{} at {i}", e.xml_path())));
                }
                match sub.model() {
                    Ok(mm) if mm == *m => {}
                    other => out.push(p("C03", "tree|model", format!("{}: model() = {:?}", sub.xml_path(), other.map(|_| "other model")))),
                }
            } else if e.get_sub_element_at(i).is_some() {
                out.push(p("C03", "tree|get_sub_element_at-on-text", format!("{} at {i}", e.xml_path())));
            }
        }
        let subs: Vec<Element> = e.sub_elements().collect();
        if subs != subs_expected {
            out.push(p("C03", "tree|sub_elements-iterator", e.xml_path()));
        }
        if e.content_item_count() != e.content().count() {
            out.push(p("C03", "tree|content_item_count", e.xml_path()));
        }
    }
    match m.root_element().parent() {
        Ok(None) => {}
        other => out.push(p("C03", "tree|root-parent", format!("{:?}", other.map(|o| o.is_some())))),
    }
    // model-scoped iterators
    let dfs: Vec<(usize, Element)> = m.elements_dfs().collect();
    if dfs != w {
        out.push(p("C03", "iter|model-dfs-differs", format!("{} vs {} elements", dfs.len(), w.len())));
    }
    for max in 1..=3usize {
        let got: Vec<(usize, Element)> = m.elements_dfs_with_max_depth(max).collect();
        let exp: Vec<(usize, Element)> = w.iter().filter(|(d, _)| *d <= max).cloned().collect();
        if got != exp {
            out.push(p("C03", "iter|model-dfs-max-depth-differs", format!("max_depth {max}: {} vs {}", got.len(), exp.len())));
        }
    }
    // element-scoped iterators
    let candidates: Vec<&(usize, Element)> = if scope.full_element_scope { w.iter().collect() } else { w.iter().filter(|(d, _)| *d <= 2).take(40).collect() };
    for (_, e) in candidates {
        let sub = walk_from(e);
        let got: Vec<(usize, Element)> = e.elements_dfs().collect();
        if got != sub {
            out.push(p("C03", "iter|element-dfs-differs", e.xml_path()));
        }
        for max in 1..=2usize {
            let got: Vec<(usize, Element)> = e.elements_dfs_with_max_depth(max).collect();
            let exp: Vec<(usize, Element)> = sub.iter().filter(|(d, _)| *d <= max).cloned().collect();
            if got != exp {
                out.push(p("C03", "iter|element-dfs-max-depth-differs", format!("{} max {max}", e.xml_path())));
            }
        }
    }
    out
}

pub fn path_invariants(m: &AutosarModel) -> Vec<Problem> {
    let mut out = vec![];
    let exp = expected_paths(m);
    let mut expect: BTreeMap<String, Element> = BTreeMap::new();
    for (path, e) in &exp {
        if expect.insert(path.clone(), e.clone()).is_some() {
            out.push(p("C04", "path|two-elements-one-path", path.clone()));
        }
        match e.path() {
            Ok(got) if got == *path => {}
            other => out.push(p("C04", "path|path()-differs-from-ancestor-names", format!("{path}: {other:?}"))),
        }
    }
    for (_, e) in walk(m) {
        if e.is_identifiable() && e.item_name().is_none() {
            out.push(p("C04", "path|identifiable-without-name", e.xml_path()));
        }
    }
    let mut listed: BTreeMap<String, Element> = BTreeMap::new();
    for (path, weak) in m.identifiable_elements() {
        match weak.upgrade() {
            None => out.push(p("C04", "index|dead-entry", path.clone())),
            Some(e) => {
                if listed.insert(path.clone(), e).is_some() {
                    out.push(p("C04", "index|path-listed-twice", path.clone()));
                }
            }
        }
    }
    for (path, e) in &expect {
        match listed.get(path) {
            None => out.push(p("C04", "index|missing-entry", path.clone())),
            Some(g) if g != e => out.push(p("C04", "index|entry-names-other-element", path.clone())),
            _ => {}
        }
        match m.get_element_by_path(path) {
            Some(g) if g == *e => {}
            Some(_) => out.push(p("C04", "lookup|returns-other-element", path.clone())),
            None => out.push(p("C04", "lookup|misses-existing-path", path.clone())),
        }
    }
    for path in listed.keys() {
        if !expect.contains_key(path) {
            out.push(p("C04", "index|stale-entry", path.clone()));
        }
    }
    // near misses
    let mut misses: BTreeSet<String> = BTreeSet::new();
    misses.insert(String::new());
    misses.insert("/".into());
    for path in expect.keys().take(200) {
        misses.insert(path[..path.len() - 1].to_string());
        misses.insert(format!("{path}0"));
        misses.insert(format!("{path}_1"));
        misses.insert(format!("{path}/"));
        misses.insert(format!("{path}/a"));
        misses.insert(path[1..].to_string());
        misses.insert(format!("/{path}"));
    }
    for q in misses {
        if !expect.contains_key(&q) && m.get_element_by_path(&q).is_some() {
            out.push(p("C04", "lookup|finds-nonexistent-path", q));
        }
    }
    out
}

pub fn reference_invariants(m: &AutosarModel, scope: &Scope) -> Vec<Problem> {
    let mut out = vec![];
    let w = walk(m);
    let live: HashSet<Element> = w.iter().map(|(_, e)| e.clone()).collect();
    let expect: HashMap<String, Element> = {
        let mut h = HashMap::new();
        for (path, e) in expected_paths(m) {
            h.entry(path).or_insert(e);
        }
        h
    };
    let mut refs: BTreeMap<String, Vec<Element>> = BTreeMap::new();
    let mut no_text: Vec<Element> = vec![];
    for (_, e) in &w {
        if e.is_reference() {
            match e.character_data() {
                Some(CharacterData::String(t)) => refs.entry(t).or_default().push(e.clone()),
                _ => no_text.push(e.clone()),
            }
        }
    }
    let mut keys: BTreeSet<String> = expect.keys().cloned().collect();
    keys.extend(refs.keys().cloned());
    keys.extend(m.verif_reference_origin_keys());
    keys.extend(scope.extra_ref_keys.iter().cloned());
    for k in &keys {
        let got_all = m.get_references_to(k);
        let got: Vec<Element> = got_all.iter().filter_map(|wk| wk.upgrade()).filter(|e| live.contains(e)).collect();
        let gs: HashSet<Element> = got.iter().cloned().collect();
        let es: HashSet<Element> = refs.get(k).map(|v| v.iter().cloned().collect()).unwrap_or_default();
        if got.len() != gs.len() {
            out.push(p("C05", "referrers|listed-twice", k.clone()));
        }
        if gs != es {
            let kind = if gs.is_subset(&es) {
                "referrers|missing"
            } else if es.is_subset(&gs) {
                "referrers|extra"
            } else {
                "referrers|wrong"
            };
            out.push(p("C05", kind, format!("{k}: listed {} expected {}", gs.len(), es.len())));
        }
    }
    let report: Vec<Element> = m.check_references().iter().filter_map(|wk| wk.upgrade()).collect();
    let broken: HashSet<Element> = report.iter().cloned().collect();
    if broken.len() != report.len() {
        out.push(p("C05", "report|reference-listed-twice", ""));
    }
    for e in &broken {
        if !live.contains(e) {
            out.push(p("C05", "report|lists-element-outside-model", e.xml_path()));
        }
    }
    for (t, es) in &refs {
        for e in es {
            let target = expect.get(t);
            let dest = e.attribute_value(AttributeName::Dest).and_then(|d| d.enum_value());
            let valid = match (target, dest) {
                (Some(tg), Some(d)) => tg.element_type().verify_reference_dest(d),
                _ => false,
            };
            if valid == broken.contains(e) {
                out.push(p("C05", if valid { "report|lists-valid-reference" } else { "report|misses-invalid-reference" }, format!("{} -> {t}", e.xml_path())));
            }
            match (e.get_reference_target(), valid) {
                (Ok(found), true) => {
                    if Some(&found) != target {
                        out.push(p("C05", "resolve|returns-other-element", t.clone()));
                    }
                }
                (Err(_), false) => {}
                (Ok(_), false) => out.push(p("C05", "resolve|succeeds-for-invalid-reference", t.clone())),
                (Err(err), true) => out.push(p("C05", "resolve|fails-for-valid-reference", format!("{t}: {err}"))),
            }
        }
    }
    for e in &no_text {
        if broken.contains(e) {
            // a reference without text is not judged (DESIGN section 8)
        }
    }
    out
}

/// effective membership per element by the harness's own rule: local set if non-empty, else the parent's
pub fn membership_invariants(m: &AutosarModel) -> Vec<Problem> {
    let mut out = vec![];
    let files: Vec<ArxmlFile> = m.files().collect();
    let fileset: HashSet<WeakArxmlFile> = files.iter().map(|f| f.downgrade()).collect();
    let w = walk(m);
    if files.is_empty() {
        return out;
    }
    let mut eff: HashMap<Element, HashSet<WeakArxmlFile>> = HashMap::new();
    for (_, e) in &w {
        let (local, set) = match e.file_membership() {
            Ok(x) => x,
            Err(err) => {
                out.push(p("C10", "membership|query-fails-on-live-element", format!("{}: {err}", e.xml_path())));
                continue;
            }
        };
        if !set.is_subset(&fileset) {
            out.push(p("C10", "membership|names-file-outside-model", e.xml_path()));
        }
        if set.is_empty() {
            out.push(p("C10", "membership|element-in-no-file", e.xml_path()));
        }
        if let Ok(Some(par)) = e.parent() {
            if let Some(ps) = eff.get(&par) {
                if local && !set.is_subset(ps) {
                    out.push(p("C10", "membership|not-subset-of-parent", e.xml_path()));
                }
                if !local && set != *ps {
                    out.push(p("C10", "membership|inherited-differs-from-parent", e.xml_path()));
                }
            }
        }
        eff.insert(e.clone(), set);
    }
    // file-scoped views
    let mut covered: HashSet<Element> = HashSet::new();
    for f in &files {
        let wf = f.downgrade();
        let mut expect_view: Vec<(usize, Element)> = vec![];
        let mut in_view: HashSet<Element> = HashSet::new();
        for (d, e) in &w {
            let parent_in = match e.parent() {
                Ok(Some(par)) => in_view.contains(&par),
                _ => true,
            };
            if parent_in && eff.get(e).is_some_and(|s| s.contains(&wf)) {
                in_view.insert(e.clone());
                expect_view.push((*d, e.clone()));
            }
        }
        covered.extend(in_view.iter().cloned());
        let got: Vec<(usize, Element)> = f.elements_dfs().collect();
        if got != expect_view {
            out.push(p("C10", "view|file-dfs-differs-from-membership", format!("{}: {} vs {}", f.filename().display(), got.len(), expect_view.len())));
        }
        for max in 1..=2usize {
            let got: Vec<(usize, Element)> = f.elements_dfs_with_max_depth(max).collect();
            let exp: Vec<(usize, Element)> = expect_view.iter().filter(|(d, _)| *d <= max).cloned().collect();
            if got != exp {
                out.push(p("C03", "iter|file-dfs-max-depth-differs", format!("{} max {max}", f.filename().display())));
            }
        }
        // the text of the file contains exactly the elements attributed to it and loads on its own
        match f.serialize() {
            Err(e) => out.push(p("C10", "text|file-cannot-be-serialized", format!("{}: {e}", f.filename().display()))),
            Ok(text) => {
                let m2 = AutosarModel::new();
                match m2.load_buffer(text.as_bytes(), "alone.arxml", false) {
                    Err(e) => out.push(p("C10", "text|file-does-not-load-on-its-own", format!("{}: {e}", f.filename().display()))),
                    Ok(_) => {
                        let shape = |v: &[(usize, Element)]| -> Vec<(usize, String, Option<String>)> {
                            // all text of the element, concatenated: adjacent text items of mixed content are one run in the file
                            v.iter()
                                .map(|(d, e)| {
                                    let texts: Vec<String> = e.content().filter_map(|c| if let ElementContent::CharacterData(c) = c { Some(c.to_string()) } else { None }).collect();
                                    (*d, e.element_name().to_string(), if texts.is_empty() { None } else { Some(texts.concat()) })
                                })
                                .collect()
                        };
                        let alone: Vec<(usize, Element)> = walk(&m2);
                        if shape(&alone) != shape(&expect_view) {
                            out.push(p("C10", "text|file-text-differs-from-the-elements-attributed-to-it", format!("{}: {} vs {} elements", f.filename().display(), alone.len(), expect_view.len())));
                        }
                    }
                }
            }
        }
    }
    for (_, e) in &w {
        if !covered.contains(e) {
            out.push(p("C10", "view|element-written-to-no-file", e.xml_path()));
        }
    }
    out
}

pub fn all_invariants(m: &AutosarModel, scope: &Scope) -> Vec<Problem> {
    let mut v = tree_invariants(m, scope);
    v.extend(path_invariants(m));
    v.extend(reference_invariants(m, scope));
    v.extend(membership_invariants(m));
    v
}
