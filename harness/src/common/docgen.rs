//! Specification-derived document generator: for one version, abstract documents (Node trees) that together
//! contain every (parent type, sub-element) edge, every attribute and every character-data spec valid in it.
//! The expected model of a generated document is the tree itself; text is produced by the independent printer.
use super::specgraph::*;
use super::tree::*;
use autosar_data::*;
use autosar_data_specification::*;
use std::collections::HashSet;

pub struct DocGen {
    pub v: AutosarVersion,
    pub expanded: HashSet<ElementType>,
    pub ctr: usize,
    pub edges: usize,
    pub attrs: usize,
    pub uncoverable: usize,
    pub chardata_specs: HashSet<usize>,
    /// rich values exercise escaping / unicode in String kinds; plain values are identifier-like
    pub rich: bool,
}

impl DocGen {
    pub fn new(v: AutosarVersion, rich: bool) -> DocGen {
        DocGen { v, expanded: HashSet::new(), ctr: 0, edges: 0, attrs: 0, uncoverable: 0, chardata_specs: HashSet::new(), rich }
    }

    pub fn value(&mut self, spec: &'static CharacterDataSpec, preserve_hint: bool) -> Option<Val> {
        self.chardata_specs.insert(spec as *const _ as usize);
        match spec {
            CharacterDataSpec::String { max_length, preserve_whitespace } if self.rich => {
                self.ctr += 1;
                let s = if *preserve_whitespace || preserve_hint {
                    format!(" a&b <{}> \"q\" 'r' é\u{4e16} ", self.ctr)
                } else {
                    format!("a&b <{}> \"q\" 'r' é\u{4e16}", self.ctr)
                };
                if max_length.is_some_and(|m| s.len() > m) {
                    Some(Val::Str("t".into()))
                } else {
                    Some(Val::Str(s))
                }
            }
            _ => sample_value(spec, self.v, &mut self.ctr),
        }
    }

    pub fn document(&mut self) -> Node {
        let mut insts = self.instances(ElementName::Autosar, ElementType::ROOT);
        // the root has no exclusive alternatives; should that ever change, the extra instances become extra documents
        insts.swap_remove(0)
    }

    fn open(&mut self, name: ElementName, t: ElementType, all_attrs: bool) -> Option<Node> {
        let mut n = Node::new(name.to_str());
        if t == ElementType::ROOT {
            return Some(n);
        }
        let specs: Vec<(AttributeName, &'static CharacterDataSpec, bool)> = crate::common::specgraph::attribute_specs(t).into_iter().collect();
        for (an, spec, required) in specs {
            let aspec = t.find_attribute_spec(an)?;
            if !self.v.compatible(aspec.version) {
                continue;
            }
            if required || all_attrs {
                if let Some(val) = self.value(spec, false) {
                    n.attrs.push((an.to_str().to_string(), val));
                    if all_attrs {
                        self.attrs += 1;
                    }
                } else if required {
                    return None;
                }
            }
        }
        Some(n)
    }

    /// one or more instances of element `name` of type `t` that together cover all its sub-elements (first time),
    /// or one minimal instance (type already expanded)
    pub fn instances(&mut self, name: ElementName, t: ElementType) -> Vec<Node> {
        let first = self.expanded.insert(t);
        let Some(open) = self.open(name, t, first) else { return vec![] };
        let named = t.is_named_in_version(self.v);
        if t.content_mode() == ContentMode::Characters {
            let mut n = open;
            if let Some(spec) = t.chardata_spec() {
                match self.value(spec, false) {
                    Some(v) => n.items.push(Item::Text(v)),
                    None => return vec![],
                }
            }
            return vec![n];
        }
        let short_name = |g: &mut DocGen| {
            g.ctr += 1;
            Node::new("SHORT-NAME").text(Val::Str(format!("n{}", g.ctr)))
        };
        if !first {
            let mut n = open;
            if named {
                let sn = short_name(self);
                n.items.push(Item::Node(sn));
            }
            return vec![n];
        }
        let mut subs = sub_specs(t, self.v);
        subs.sort_by(|a, b| a.indices.cmp(&b.indices));
        // greedy packing into groups free of exclusive-choice conflicts
        let mut groups: Vec<Vec<SubSpec>> = vec![];
        let sn_indices: Option<Vec<usize>> = if named { subs.iter().find(|s| s.name == ElementName::ShortName).map(|s| s.indices.clone()) } else { None };
        for s in subs {
            if s.name == ElementName::ShortName && named {
                self.edges += 1;
                self.expanded.insert(s.etype);
                continue;
            }
            if let Some(sn) = &sn_indices {
                // a sub-element that is an exclusive alternative of the mandatory SHORT-NAME cannot occur in any valid document
                if t.find_common_group(sn, &s.indices).content_mode() == ContentMode::Choice {
                    self.uncoverable += 1;
                    continue;
                }
            }
            let mut placed = false;
            for g in groups.iter_mut() {
                let conflict = g.iter().any(|c| c.indices != s.indices && t.find_common_group(&c.indices, &s.indices).content_mode() == ContentMode::Choice);
                if !conflict {
                    g.push(s.clone());
                    placed = true;
                    break;
                }
            }
            if !placed {
                groups.push(vec![s]);
            }
        }
        if groups.is_empty() {
            groups.push(vec![]);
        }
        let mixed = t.content_mode() == ContentMode::Mixed;
        let mut result = vec![];
        for g in groups {
            // instances of every member
            let mut member_insts: Vec<(bool, Vec<Node>)> = vec![];
            for s in &g {
                self.edges += 1;
                let child = self.instances(s.name, s.etype);
                let mult = t.get_sub_element_multiplicity(&s.indices).unwrap_or(ElementMultiplicity::Any);
                let container = t.get_sub_element_container_mode(&s.indices);
                let multi_ok = mult == ElementMultiplicity::Any || matches!(container, ContentMode::Bag | ContentMode::Mixed);
                member_insts.push((multi_ok, child));
            }
            let parents_needed = member_insts.iter().filter(|(m, _)| !*m).map(|(_, c)| c.len()).max().unwrap_or(1).max(1);
            for j in 0..parents_needed {
                let mut n = open.clone();
                if j > 0 {
                    // later parent instances only carry required attributes
                    let req: HashSet<String> = crate::common::specgraph::attribute_specs(t).into_iter().filter(|a| a.2).map(|a| a.0.to_str().to_string()).collect();
                    n.attrs.retain(|(a, _)| req.contains(a));
                }
                if named {
                    let sn = short_name(self);
                    n.items.push(Item::Node(sn));
                }
                let mut text_ctr = 0;
                for (multi_ok, child) in &member_insts {
                    let take: Vec<&Node> = if *multi_ok {
                        if j == 0 {
                            child.iter().collect()
                        } else {
                            vec![]
                        }
                    } else {
                        child.get(j).into_iter().collect()
                    };
                    for c in take {
                        if mixed {
                            if let Some(spec) = t.chardata_spec() {
                                text_ctr += 1;
                                if text_ctr % 2 == 1 {
                                    if let Some(Val::Str(s)) = self.value(spec, false) {
                                        n.items.push(Item::Text(Val::Str(s.trim().to_string())));
                                    }
                                }
                            }
                        }
                        // identifiable children need fresh names when an instance is reused: instances are used once each,
                        // so names stay unique
                        n.items.push(Item::Node(c.clone()));
                    }
                }
                if mixed && n.items.iter().all(|i| matches!(i, Item::Node(_))) && j == 0 {
                    if let Some(spec) = t.chardata_spec() {
                        if let Some(Val::Str(s)) = self.value(spec, false) {
                            n.items.push(Item::Text(Val::Str(s.trim().to_string())));
                        }
                    }
                }
                result.push(n);
            }
        }
        result
    }
}

/// all reference elements of a tree with their text, all identifiable paths (by my own walk of the abstract tree)
pub fn abstract_index(root: &Node) -> (Vec<String>, Vec<String>) {
    fn rec(n: &Node, prefix: &str, paths: &mut Vec<String>) {
        let mut p = prefix.to_string();
        if let Some(Item::Node(first)) = n.items.first() {
            if first.name == "SHORT-NAME" {
                if let Some(Item::Text(Val::Str(s))) = first.items.first() {
                    p = format!("{prefix}/{s}");
                    paths.push(p.clone());
                }
            }
        }
        for c in n.children() {
            rec(c, &p, paths);
        }
    }
    let mut paths = vec![];
    rec(root, "", &mut paths);
    (paths, vec![])
}
