//! Sequential-mode lock hook: one thread, no scheduler. It keeps the set of locks the thread holds and
//!  * answers a try/timed acquisition that conflicts with the thread's own lock immediately with "refused"
//!    (the real code would wait 10 ms and then give up) and records it as a self-conflict event,
//!  * turns a *blocking* acquisition that conflicts with the thread's own lock into a panic instead of a hang.
use autosar_data::verif_hooks::{set_thread_hook, Kind, LockHook, Mode, Req};
use std::cell::RefCell;
use std::sync::Arc;

#[derive(Debug, Clone)]
pub struct SelfConflict {
    pub site: String,
    pub class: &'static str,
    pub mode: Mode,
    pub kind: Kind,
    pub held: Mode,
}

thread_local! {
    static HELD: RefCell<Vec<(usize, Mode)>> = const { RefCell::new(Vec::new()) };
    static EVENTS: RefCell<Vec<SelfConflict>> = const { RefCell::new(Vec::new()) };
}

pub struct SeqHook;

fn short_site(req: &Req) -> String {
    let f = req.site.file();
    format!("{}:{}", f.rsplit('/').next().unwrap_or(f), req.site.line())
}

impl LockHook for SeqHook {
    fn acquire(&self, req: &Req) -> bool {
        let conflict = HELD.with(|h| {
            h.borrow().iter().find(|(a, m)| *a == req.addr && (*m == Mode::Write || req.mode == Mode::Write)).map(|(_, m)| *m)
        });
        if let Some(held) = conflict {
            match req.kind {
                Kind::Block => {
                    // clean the table: the panic unwinds through guards that will call release()
                    panic!("verif: self-deadlock: blocking {:?} acquisition of a lock this thread holds ({:?}) at {}", req.mode, held, short_site(req));
                }
                Kind::Try | Kind::Timed => {
                    EVENTS.with(|e| {
                        let mut e = e.borrow_mut();
                        if e.len() < 64 {
                            e.push(SelfConflict { site: short_site(req), class: req.class, mode: req.mode, kind: req.kind, held });
                        }
                    });
                    return false;
                }
            }
        }
        HELD.with(|h| h.borrow_mut().push((req.addr, req.mode)));
        true
    }
    fn release(&self, addr: usize, mode: Mode) {
        HELD.with(|h| {
            let mut h = h.borrow_mut();
            if let Some(pos) = h.iter().rposition(|(a, m)| *a == addr && *m == mode) {
                h.remove(pos);
            }
        });
    }
}

/// install the sequential hook on the calling thread
pub fn install() {
    set_thread_hook(Some(Arc::new(SeqHook)));
}
pub fn uninstall() {
    set_thread_hook(None);
}

/// self-conflict events since the last call
pub fn take_events() -> Vec<SelfConflict> {
    EVENTS.with(|e| std::mem::take(&mut *e.borrow_mut()))
}
/// number of locks the thread holds right now (must be 0 between public calls)
pub fn held_count() -> usize {
    HELD.with(|h| h.borrow().len())
}
pub fn reset() {
    HELD.with(|h| h.borrow_mut().clear());
    EVENTS.with(|e| e.borrow_mut().clear());
}
