//! Shared infrastructure: run context, evidence writer, known-findings matcher, replay files.
pub mod tree;
pub mod specgraph;
pub mod regexdfa;
pub mod bignum;
pub mod docgen;
pub mod invariants;
pub mod specvalid;
pub mod seqhook;

use serde_json::{json, Value};
use std::collections::{BTreeMap, BTreeSet};
use std::sync::atomic::{AtomicU64, Ordering};
use std::sync::Mutex;
use std::time::Instant;

pub const VERIF_DIR: &str = "/verif";
/// where evidence and replay files go; development runs against a scratch copy of the repository (tools/check_in_worktree.sh)
/// set VERIF_OUT_DIR so that they do not overwrite the files of the registered commands
pub fn out_dir() -> String {
    std::env::var("VERIF_OUT_DIR").unwrap_or_else(|_| VERIF_DIR.to_string())
}

#[derive(Clone, Copy, PartialEq, Eq, Debug)]
pub enum Tier {
    Quick,
    Thorough,
}
impl Tier {
    pub fn name(self) -> &'static str {
        match self {
            Tier::Quick => "quick",
            Tier::Thorough => "thorough",
        }
    }
    pub fn pick<T>(self, q: T, t: T) -> T {
        match self {
            Tier::Quick => q,
            Tier::Thorough => t,
        }
    }
}

pub struct KnownFinding {
    pub key: String,
    pub what: String,
}

/// one run of one property check
pub struct Ctx {
    pub prop: &'static str,
    pub tier: Tier,
    pub seed: i64,
    pub start: Instant,
    known: Vec<KnownFinding>,
    /// key -> (size of witness, witness, number of cases with that key)
    violations: Mutex<BTreeMap<String, (usize, Value, u64)>>,
    counters: Mutex<BTreeMap<String, u64>>,
    outcomes: Mutex<BTreeSet<String>>,
    samples: Mutex<Vec<Value>>,
    pub evaluations: AtomicU64,
    machinery_errors: Mutex<Vec<String>>,
    pub assumptions: Mutex<Vec<String>>,
}

impl Ctx {
    pub fn new(prop: &'static str, tier: Tier) -> Ctx {
        let _ = std::fs::remove_dir_all(format!("{}/replays/{prop}", out_dir()));
        Self::for_replay(prop, tier)
    }
    /// a context that leaves the replay directory alone (finish() is not meant to be called on it)
    pub fn for_replay(prop: &'static str, tier: Tier) -> Ctx {
        let seed = std::env::var("VERIF_SEED").ok().and_then(|s| s.parse().ok()).unwrap_or(0);
        let mut known = vec![];
        let path = format!("{VERIF_DIR}/known_findings.json");
        if let Ok(text) = std::fs::read_to_string(&path) {
            match serde_json::from_str::<Value>(&text) {
                Ok(v) => {
                    for f in v["findings"].as_array().cloned().unwrap_or_default() {
                        if f["property"].as_str() == Some(prop) {
                            known.push(KnownFinding {
                                key: f["key"].as_str().unwrap_or("").to_string(),
                                what: f["what"].as_str().unwrap_or("").to_string(),
                            });
                        }
                    }
                }
                Err(e) => {
                    eprintln!("MACHINERY: cannot parse {path}: {e}");
                    std::process::exit(2);
                }
            }
        }
        Ctx {
            prop,
            tier,
            seed,
            start: Instant::now(),
            known,
            violations: Mutex::new(BTreeMap::new()),
            counters: Mutex::new(BTreeMap::new()),
            outcomes: Mutex::new(BTreeSet::new()),
            samples: Mutex::new(vec![]),
            evaluations: AtomicU64::new(0),
            machinery_errors: Mutex::new(vec![]),
            assumptions: Mutex::new(vec![]),
        }
    }

    pub fn is_known(&self, key: &str) -> bool {
        self.known.iter().any(|k| k.key == key)
    }

    /// record a violating case; the smallest witness per key is kept
    pub fn violation(&self, key: impl Into<String>, witness: Value) {
        let key = key.into();
        let size = witness.to_string().len();
        let mut v = self.violations.lock().unwrap();
        match v.get_mut(&key) {
            Some(e) => {
                e.2 += 1;
                if size < e.0 {
                    e.0 = size;
                    e.1 = witness;
                }
            }
            None => {
                v.insert(key, (size, witness, 1));
            }
        }
    }
    pub fn has_violation_key(&self, key: &str) -> bool {
        self.violations.lock().unwrap().contains_key(key)
    }
    pub fn machinery_error(&self, what: impl Into<String>) {
        let mut m = self.machinery_errors.lock().unwrap();
        if m.len() < 50 {
            m.push(what.into());
        }
    }
    pub fn count(&self, name: &str, n: u64) {
        *self.counters.lock().unwrap().entry(name.to_string()).or_insert(0) += n;
    }
    pub fn eval(&self, n: u64) {
        self.evaluations.fetch_add(n, Ordering::Relaxed);
    }
    /// register an observed outcome class (to expose vacuous exploration)
    pub fn outcome(&self, o: impl Into<String>) {
        let o = o.into();
        let mut s = self.outcomes.lock().unwrap();
        if s.len() < 100_000 {
            s.insert(o);
        }
    }
    pub fn sample(&self, v: Value) {
        let mut s = self.samples.lock().unwrap();
        if s.len() < 12 {
            s.push(v);
        }
    }
    pub fn assume(&self, a: &str) {
        self.assumptions.lock().unwrap().push(a.to_string());
    }
    pub fn elapsed(&self) -> f64 {
        self.start.elapsed().as_secs_f64()
    }

    /// write evidence + replays, print verdict lines, return the exit code
    pub fn finish(&self, level: &str, mut coverage: Value) -> i32 {
        let viol = self.violations.lock().unwrap();
        let merr = self.machinery_errors.lock().unwrap();
        let mut unknown = 0;
        let mut known_seen = vec![];
        let dir = format!("{}/replays/{}", out_dir(), self.prop);
        let _ = std::fs::create_dir_all(&dir);
        let mut lines = vec![];
        for (key, (_, witness, n)) in viol.iter() {
            if self.is_known(key) {
                let what = self.known.iter().find(|k| &k.key == key).map(|k| k.what.clone()).unwrap_or_default();
                lines.push(format!("KNOWN-FINDING: property={} {} [key={}; {} cases]", self.prop, what, key, n));
                known_seen.push(key.clone());
            } else {
                unknown += 1;
                let fname: String = key
                    .chars()
                    .map(|c| if c.is_ascii_alphanumeric() || c == '-' || c == '_' || c == '.' { c } else { '_' })
                    .take(80)
                    .collect();
                let mut h: u64 = 0xcbf29ce484222325;
                for b in key.bytes() {
                    h = (h ^ b as u64).wrapping_mul(0x100000001b3);
                }
                let path = format!("{dir}/{fname}_{:08x}.json", h as u32);
                let doc = json!({"property": self.prop, "key": key, "cases": n, "witness": witness});
                let _ = std::fs::write(&path, serde_json::to_string_pretty(&doc).unwrap());
                lines.push(format!("VIOLATION property={} replay={}", self.prop, path));
                eprintln!("  key: {key}  ({n} cases)");
            }
        }
        let counters = self.counters.lock().unwrap();
        let outcomes = self.outcomes.lock().unwrap();
        let cov = coverage.as_object_mut().expect("coverage must be an object");
        let samples = self.samples.lock().unwrap();
        if !cov.contains_key("samples") {
            cov.insert("samples".into(), Value::Array(samples.clone()));
        }
        if !cov.contains_key("evaluations") {
            cov.insert("evaluations".into(), json!(self.evaluations.load(Ordering::Relaxed)));
        }
        cov.insert("distinct_outcomes".into(), json!(outcomes.len()));
        // the observed outcome classes themselves (to be read: one class from many executions means nothing collided)
        let mut listed: Vec<&String> = outcomes.iter().collect();
        listed.sort();
        cov.insert("outcomes_observed".into(), json!(listed.iter().take(400).collect::<Vec<_>>()));
        cov.insert("counters".into(), json!(*counters));
        cov.insert("known_finding_keys_seen".into(), json!(known_seen));
        cov.insert(
            "violation_keys".into(),
            json!(viol.iter().map(|(k, v)| json!({"key": k, "cases": v.2})).collect::<Vec<_>>()),
        );
        if !merr.is_empty() {
            cov.insert("machinery_errors".into(), json!(*merr));
        }
        let ev = json!({
            "property_id": self.prop,
            "tier": self.tier.name(),
            "seed": self.seed,
            "level": level,
            "coverage": coverage,
            "assumptions": *self.assumptions.lock().unwrap(),
            "wall_s": (self.elapsed() * 1000.0).round() / 1000.0,
            "violations": unknown,
        });
        let _ = std::fs::create_dir_all(format!("{}/evidence", out_dir()));
        std::fs::write(
            format!("{}/evidence/{}.json", out_dir(), self.prop),
            serde_json::to_string_pretty(&ev).unwrap(),
        )
        .expect("cannot write evidence");
        for l in &lines {
            println!("{l}");
        }
        if !merr.is_empty() {
            for m in merr.iter() {
                eprintln!("MACHINERY: {m}");
            }
            return 2;
        }
        if unknown > 0 {
            1
        } else {
            println!(
                "OK property={} tier={} wall={:.1}s evaluations={} known_findings={}",
                self.prop,
                self.tier.name(),
                self.elapsed(),
                self.evaluations.load(Ordering::Relaxed),
                known_seen.len()
            );
            0
        }
    }
}

/// run `f`, converting a panic into Err(message)
thread_local! { static GUARD_DEPTH: std::cell::Cell<u32> = const { std::cell::Cell::new(0) }; }

pub fn guarded<T>(f: impl FnOnce() -> T) -> Result<T, String> {
    GUARD_DEPTH.with(|d| d.set(d.get() + 1));
    let r = std::panic::catch_unwind(std::panic::AssertUnwindSafe(f));
    GUARD_DEPTH.with(|d| d.set(d.get() - 1));
    match r {
        Ok(v) => Ok(v),
        Err(e) => {
            let msg = if let Some(s) = e.downcast_ref::<&str>() {
                s.to_string()
            } else if let Some(s) = e.downcast_ref::<String>() {
                s.clone()
            } else {
                "panic".to_string()
            };
            Err(msg)
        }
    }
}

thread_local! {
    pub static LAST_PANIC_LOC: std::cell::RefCell<Option<String>> = const { std::cell::RefCell::new(None) };
}

/// install a quiet panic hook that remembers the location of the last panic per thread
pub fn install_panic_hook() {
    std::panic::set_hook(Box::new(|info| {
        let loc = info
            .location()
            .map(|l| {
                let f = l.file();
                let f = f.rsplit('/').next().unwrap_or(f);
                format!("{}:{}", f, l.line())
            })
            .unwrap_or_else(|| "?".into());
        if GUARD_DEPTH.with(|d| d.get()) == 0 {
            // a panic of the harness itself (not of the subject under a guard): machinery failure, make it visible
            eprintln!("MACHINERY: harness panic at {loc}: {info}");
        }
        LAST_PANIC_LOC.with(|c| *c.borrow_mut() = Some(loc));
    }));
}
pub fn last_panic_loc() -> String {
    LAST_PANIC_LOC.with(|c| c.borrow_mut().take()).unwrap_or_else(|| "?".into())
}

pub fn bytes_to_json(b: &[u8]) -> Value {
    match std::str::from_utf8(b) {
        Ok(s) if !s.chars().any(|c| c.is_control() && c != '\n' && c != '\t') => json!({"text": s}),
        _ => json!({"hex": b.iter().map(|x| format!("{x:02x}")).collect::<String>()}),
    }
}
pub fn json_to_bytes(v: &Value) -> Option<Vec<u8>> {
    if let Some(s) = v["text"].as_str() {
        return Some(s.as_bytes().to_vec());
    }
    let h = v["hex"].as_str()?;
    (0..h.len() / 2).map(|i| u8::from_str_radix(&h[2 * i..2 * i + 2], 16).ok()).collect()
}
