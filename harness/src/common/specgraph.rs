//! Walker over the finite specification graph: versions, reachable element types, shortest access paths,
//! sample values for every character-data kind.
use super::tree::{Node, Val};
use autosar_data::*;
use autosar_data_specification::*;
use std::collections::{HashMap, VecDeque};

pub static VERSIONS: [AutosarVersion; 21] = [
    AutosarVersion::Autosar_4_0_1,
    AutosarVersion::Autosar_4_0_2,
    AutosarVersion::Autosar_4_0_3,
    AutosarVersion::Autosar_4_1_1,
    AutosarVersion::Autosar_4_1_2,
    AutosarVersion::Autosar_4_1_3,
    AutosarVersion::Autosar_4_2_1,
    AutosarVersion::Autosar_4_2_2,
    AutosarVersion::Autosar_4_3_0,
    AutosarVersion::Autosar_00042,
    AutosarVersion::Autosar_00043,
    AutosarVersion::Autosar_00044,
    AutosarVersion::Autosar_00045,
    AutosarVersion::Autosar_00046,
    AutosarVersion::Autosar_00047,
    AutosarVersion::Autosar_00048,
    AutosarVersion::Autosar_00049,
    AutosarVersion::Autosar_00050,
    AutosarVersion::Autosar_00051,
    AutosarVersion::Autosar_00052,
    AutosarVersion::Autosar_00053,
];

/// the schema file name of each version, from the AUTOSAR naming scheme (the harness's own table: the crate's
/// `AutosarVersion::filename()` is part of what is checked)
pub static XSD_NAMES: [&str; 21] = [
    "AUTOSAR_4-0-1.xsd",
    "AUTOSAR_4-0-2.xsd",
    "AUTOSAR_4-0-3.xsd",
    "AUTOSAR_4-1-1.xsd",
    "AUTOSAR_4-1-2.xsd",
    "AUTOSAR_4-1-3.xsd",
    "AUTOSAR_4-2-1.xsd",
    "AUTOSAR_4-2-2.xsd",
    "AUTOSAR_4-3-0.xsd",
    "AUTOSAR_00042.xsd",
    "AUTOSAR_00043.xsd",
    "AUTOSAR_00044.xsd",
    "AUTOSAR_00045.xsd",
    "AUTOSAR_00046.xsd",
    "AUTOSAR_00047.xsd",
    "AUTOSAR_00048.xsd",
    "AUTOSAR_00049.xsd",
    "AUTOSAR_00050.xsd",
    "AUTOSAR_00051.xsd",
    "AUTOSAR_00052.xsd",
    "AUTOSAR_00053.xsd",
];
pub fn xsd_name(v: AutosarVersion) -> &'static str {
    XSD_NAMES[version_index(v)]
}

pub fn version_index(v: AutosarVersion) -> usize {
    (v as u32).trailing_zeros() as usize
}

/// one listed sub-element of a type that is valid in a given version, resolved through the version-aware lookup
#[derive(Clone, Debug)]
pub struct SubSpec {
    pub name: ElementName,
    pub etype: ElementType,
    pub indices: Vec<usize>,
    pub mask: u32,
}

/// every element name that the lookup of `t` finds in some version (own enumeration over all names, cached per type)
pub fn lookup_names(t: ElementType) -> std::sync::Arc<Vec<ElementName>> {
    use std::str::FromStr;
    use std::sync::{Arc, OnceLock, RwLock};
    static NAMES: OnceLock<Vec<ElementName>> = OnceLock::new();
    static CACHE: RwLock<Option<HashMap<ElementType, Arc<Vec<ElementName>>>>> = RwLock::new(None);
    if let Some(v) = CACHE.read().unwrap().as_ref().and_then(|m| m.get(&t)) {
        return v.clone();
    }
    let names = NAMES.get_or_init(|| ElementName::verif_string_table().iter().filter_map(|s| ElementName::from_str(s).ok()).collect());
    let v: Arc<Vec<ElementName>> = Arc::new(names.iter().copied().filter(|n| t.find_sub_element(*n, u32::MAX).is_some()).collect());
    CACHE.write().unwrap().get_or_insert_with(HashMap::new).insert(t, v.clone());
    v
}

/// the sub-elements of `t` valid in `v`, in the order of the specification: found by looking up *every* element name with the
/// version-aware find_sub_element (not by the crate's own listing, whose iterator is part of what is checked; C18 and
/// `listing_lookup_discrepancies` compare the two routes)
pub fn sub_specs(t: ElementType, v: AutosarVersion) -> Vec<SubSpec> {
    let mut out: Vec<SubSpec> = vec![];
    for name in lookup_names(t).iter() {
        if let Some((etype, indices)) = t.find_sub_element(*name, v as u32) {
            let mask = t.get_sub_element_version_mask(&indices).unwrap_or(v as u32);
            out.push(SubSpec { name: *name, etype, indices, mask });
        }
    }
    out.sort_by(|a, b| a.indices.cmp(&b.indices));
    out
}

/// where the listing (sub_element_spec_iter) and the lookup (find_sub_element) of a type reachable in `v` disagree about the
/// sub-elements valid in `v`: (kind, type, name). The walks of C01 / C07 / C08 follow the lookup, so they report these themselves.
pub fn listing_lookup_discrepancies(r: &Reach) -> Vec<(&'static str, String, ElementName)> {
    let v = r.version;
    let mut out = vec![];
    for t in &r.order {
        let listed: Vec<ElementName> = t.sub_element_spec_iter().filter(|(_, _, mask, _)| v.compatible(*mask)).map(|x| x.0).collect();
        let found: Vec<ElementName> = sub_specs(*t, v).iter().map(|s| s.name).collect();
        for n in &listed {
            if !found.contains(n) {
                out.push(("listed-sub-element-not-found-by-lookup", format!("{t:?}"), *n));
            }
        }
        for n in &found {
            if !listed.contains(n) {
                out.push(("sub-element-found-by-lookup-is-not-listed", format!("{t:?}"), *n));
            }
        }
    }
    out
}

#[derive(Clone, Debug)]
pub struct Step {
    pub name: ElementName,
    pub etype: ElementType,
}

/// BFS from the root in version v; for every reachable type the shortest chain of (name, type) from AUTOSAR
pub struct Reach {
    pub version: AutosarVersion,
    pub order: Vec<ElementType>,
    pub path: HashMap<ElementType, Vec<Step>>,
    pub edges: usize,
}

pub fn reach(v: AutosarVersion) -> Reach {
    let mut path: HashMap<ElementType, Vec<Step>> = HashMap::new();
    let mut order = vec![];
    let mut q = VecDeque::new();
    path.insert(ElementType::ROOT, vec![Step { name: ElementName::Autosar, etype: ElementType::ROOT }]);
    q.push_back(ElementType::ROOT);
    let mut edges = 0;
    while let Some(t) = q.pop_front() {
        order.push(t);
        let p = path[&t].clone();
        for s in sub_specs(t, v) {
            edges += 1;
            if !path.contains_key(&s.etype) {
                let mut np = p.clone();
                np.push(Step { name: s.name, etype: s.etype });
                path.insert(s.etype, np);
                q.push_back(s.etype);
            }
        }
    }
    Reach { version: v, order, path, edges }
}

/// a member of the value space of `spec` in version `v` (None: no enum item is valid in v)
pub fn sample_value(spec: &CharacterDataSpec, v: AutosarVersion, ctr: &mut usize) -> Option<Val> {
    Some(match spec {
        CharacterDataSpec::Enum { items } => Val::Enum(items.iter().find(|(_, m)| v.compatible(*m))?.0.to_str().to_string()),
        CharacterDataSpec::Pattern { regex, check_fn, max_length } => {
            *ctr += 1;
            let fits = |s: &str| check_fn(s.as_bytes()) && max_length.is_none_or(|m| s.len() <= m);
            let mut dummy = 0;
            let candidates = [format!("n{}", *ctr), format!("N{}", *ctr), sample_for_regex(regex, &mut dummy)];
            let s = match candidates.into_iter().find(|c| fits(c)) {
                Some(s) => s,
                None => {
                    // shortest member of the pattern's language, from the harness's own automaton
                    let dfa = super::regexdfa::Dfa::from_regex(regex).expect("regex compiles");
                    let m = dfa.shortest_members()[dfa.start as usize].clone().expect("language not empty");
                    let s = String::from_utf8(m).expect("ascii member");
                    assert!(fits(&s), "no sample value for {regex}");
                    s
                }
            };
            Val::Str(s)
        }
        CharacterDataSpec::String { .. } => Val::Str("text".into()),
        CharacterDataSpec::UnsignedInteger => Val::UInt(42),
        CharacterDataSpec::Float => Val::Float(1.5f64.to_bits()),
    })
}

pub fn sample_for_regex(regex: &str, ctr: &mut usize) -> String {
    match regex {
        r"0[xX][0-9a-fA-F]+" => "0x1f".into(),
        r if r.starts_with("[1-9][0-9]*|0[xX]") => "12".into(),
        r"[0-9]+|ANY" | r"[0-9]+|STRING|ARRAY" => "7".into(),
        r"0|1|true|false" => "true".into(),
        r if r.starts_with("([0-9]{4}-") => "2022-01-01".into(),
        r if r.starts_with("%[") => "%d".into(),
        r if r.starts_with("0|[\\+") => "5".into(),
        r if r.starts_with("(25[0-5]") => "1.2.3.4".into(),
        r if r.starts_with("[0-9A-Fa-f]{1,4}(:") => "1:2:3:4:5:6:7:8".into(),
        r if r.starts_with("(0[xX]") => "1.5".into(),
        r if r.starts_with("([0-9a-fA-F]{2}:)") => "00:11:22:33:44:55".into(),
        r"[1-9][0-9]*" => "3".into(),
        r if r.starts_with("-?([0-9]+|MAX") => "-1".into(),
        r if r.starts_with("/?[a-zA-Z]") => "/x/y".into(),
        r if r.starts_with("[0-9]+\\.[0-9]+\\.[0-9]+(") => "1.0.0".into(),
        r if r.starts_with("(0|[1-9]\\d*)\\.") => "1.0.0".into(),
        r"[0-1]" => "1".into(),
        r if r.starts_with("(-?[a-zA-Z_]+)") => "a b".into(),
        r"[0-9a-zA-Z_\-]+" => "a-1".into(),
        _ => {
            *ctr += 1;
            format!("n{}", *ctr)
        }
    }
}

/// the minimal node for one element of type `t` in version `v`: SHORT-NAME when named in v, required attributes,
/// a sample value when it is a character element. `None` when a required attribute has no value in v.
pub fn minimal_node(name: ElementName, t: ElementType, v: AutosarVersion, ctr: &mut usize) -> Option<Node> {
    let mut n = Node::new(name.to_str());
    for (an, spec, required) in attribute_specs(t).into_iter() {
        if required {
            let aspec = t.find_attribute_spec(an)?;
            if !v.compatible(aspec.version) {
                continue;
            }
            n.attrs.push((an.to_str().to_string(), sample_value(spec, v, ctr)?));
        }
    }
    if t.is_named_in_version(v) {
        *ctr += 1;
        n = n.child(Node::new("SHORT-NAME").text(Val::Str(format!("n{}", *ctr))));
    }
    if t.content_mode() == ContentMode::Characters {
        if let Some(spec) = t.chardata_spec() {
            n = n.text(sample_value(spec, v, ctr)?);
        }
    }
    Some(n)
}

/// wrap `leaf` into the chain of minimal ancestors given by `path` (path includes the leaf's own step as last entry)
pub fn wrap_in_path(path: &[Step], leaf: Node, v: AutosarVersion, ctr: &mut usize) -> Option<Node> {
    let mut cur = leaf;
    for step in path[..path.len() - 1].iter().rev() {
        let mut parent = minimal_node(step.name, step.etype, v, ctr)?;
        if cur.name == "SHORT-NAME" {
            // the leaf is the parent's own SHORT-NAME: replace the generated one
            parent.items.retain(|i| !matches!(i, super::tree::Item::Node(n) if n.name == "SHORT-NAME"));
        }
        parent.items.push(super::tree::Item::Node(cur));
        cur = parent;
    }
    Some(cur)
}

/// the attributes of an element type, found by looking up *every* attribute name (not by the crate's own listing, whose
/// iterator is part of what is checked): (name, value spec, required)
pub fn attribute_specs(t: ElementType) -> Vec<(AttributeName, &'static CharacterDataSpec, bool)> {
    use std::collections::HashMap;
    use std::str::FromStr;
    use std::sync::{OnceLock, RwLock};
    static NAMES: OnceLock<Vec<AttributeName>> = OnceLock::new();
    static CACHE: RwLock<Option<HashMap<ElementType, Vec<(AttributeName, &'static CharacterDataSpec, bool)>>>> = RwLock::new(None);
    if let Some(v) = CACHE.read().unwrap().as_ref().and_then(|m| m.get(&t)) {
        return v.clone();
    }
    let names = NAMES.get_or_init(|| AttributeName::verif_string_table().iter().filter_map(|s| AttributeName::from_str(s).ok()).collect());
    let v: Vec<(AttributeName, &'static CharacterDataSpec, bool)> = names.iter().filter_map(|n| t.find_attribute_spec(*n).map(|a| (*n, a.spec, a.required))).collect();
    CACHE.write().unwrap().get_or_insert_with(HashMap::new).insert(t, v.clone());
    v
}
