//! Minimal big unsigned integer and exact text -> f64 rounding (round half to even), used as the
//! independent reference for numeric interpretation (C20). Integer arithmetic only.

#[derive(Clone, Debug, PartialEq, Eq)]
pub struct Big(pub Vec<u32>); // little endian, no trailing zero limbs

impl Big {
    pub fn zero() -> Big {
        Big(vec![])
    }
    pub fn from_u64(v: u64) -> Big {
        let mut b = Big(vec![v as u32, (v >> 32) as u32]);
        b.trim();
        b
    }
    fn trim(&mut self) {
        while self.0.last() == Some(&0) {
            self.0.pop();
        }
    }
    pub fn is_zero(&self) -> bool {
        self.0.is_empty()
    }
    pub fn bits(&self) -> usize {
        match self.0.last() {
            None => 0,
            Some(top) => (self.0.len() - 1) * 32 + (32 - top.leading_zeros() as usize),
        }
    }
    pub fn mul_small(&mut self, m: u32) {
        let mut carry = 0u64;
        for limb in self.0.iter_mut() {
            let v = *limb as u64 * m as u64 + carry;
            *limb = v as u32;
            carry = v >> 32;
        }
        if carry > 0 {
            self.0.push(carry as u32);
        }
        self.trim();
    }
    pub fn add_small(&mut self, a: u32) {
        let mut carry = a as u64;
        for limb in self.0.iter_mut() {
            if carry == 0 {
                break;
            }
            let v = *limb as u64 + carry;
            *limb = v as u32;
            carry = v >> 32;
        }
        if carry > 0 {
            self.0.push(carry as u32);
        }
    }
    /// returns the remainder
    pub fn div_small(&mut self, d: u32) -> u32 {
        let mut rem = 0u64;
        for limb in self.0.iter_mut().rev() {
            let cur = (rem << 32) | *limb as u64;
            *limb = (cur / d as u64) as u32;
            rem = cur % d as u64;
        }
        self.trim();
        rem as u32
    }
    pub fn shl(&mut self, n: usize) {
        if self.is_zero() || n == 0 {
            return;
        }
        let limbs = n / 32;
        let bits = n % 32;
        if bits > 0 {
            let mut carry = 0u32;
            for limb in self.0.iter_mut() {
                let v = (*limb as u64) << bits;
                *limb = v as u32 | carry;
                carry = (v >> 32) as u32;
            }
            if carry > 0 {
                self.0.push(carry);
            }
        }
        if limbs > 0 {
            let mut v = vec![0u32; limbs];
            v.extend_from_slice(&self.0);
            self.0 = v;
        }
    }
    pub fn bit(&self, i: usize) -> bool {
        self.0.get(i / 32).is_some_and(|l| (l >> (i % 32)) & 1 == 1)
    }
    /// any of the lowest n bits set
    pub fn low_bits_nonzero(&self, n: usize) -> bool {
        let full = n / 32;
        for i in 0..full.min(self.0.len()) {
            if self.0[i] != 0 {
                return true;
            }
        }
        let rest = n % 32;
        if rest > 0 {
            if let Some(l) = self.0.get(full) {
                if l & ((1u32 << rest) - 1) != 0 {
                    return true;
                }
            }
        }
        false
    }
    /// bits [lo, lo+count) as u64 (count <= 64)
    pub fn extract(&self, lo: usize, count: usize) -> u64 {
        let mut v = 0u64;
        for i in 0..count {
            if self.bit(lo + i) {
                v |= 1u64 << i;
            }
        }
        v
    }
    pub fn to_u128(&self) -> Option<u128> {
        if self.bits() > 128 {
            return None;
        }
        let mut v = 0u128;
        for (i, l) in self.0.iter().enumerate() {
            v |= (*l as u128) << (32 * i);
        }
        Some(v)
    }
    pub fn from_digits(digits: &[u8], radix: u32) -> Big {
        let mut b = Big::zero();
        for d in digits {
            let v = (*d as char).to_digit(radix).expect("digit");
            b.mul_small(radix);
            b.add_small(v);
        }
        b
    }
    pub fn mul_pow10(&mut self, n: usize) {
        let mut left = n;
        while left >= 9 {
            self.mul_small(1_000_000_000);
            left -= 9;
        }
        if left > 0 {
            self.mul_small(10u32.pow(left as u32));
        }
    }
    /// floor division by 10^n; returns true if anything was discarded
    pub fn div_pow10(&mut self, n: usize) -> bool {
        let mut left = n;
        let mut sticky = false;
        while left >= 9 {
            sticky |= self.div_small(1_000_000_000) != 0;
            left -= 9;
        }
        if left > 0 {
            sticky |= self.div_small(10u32.pow(left as u32)) != 0;
        }
        sticky
    }
}

fn pow2(mut k: i64) -> f64 {
    // exact power of two by repeated exact multiplications (k within the finite range incl. subnormals)
    let mut v = 1.0f64;
    while k > 0 {
        let step = k.min(1000);
        v *= f64::from_bits(((1023 + step) as u64) << 52);
        k -= step;
    }
    while k < 0 {
        let step = (-k).min(1000);
        v *= f64::from_bits(((1023 - step) as u64) << 52);
        k += step;
    }
    v
}

/// the f64 nearest (ties to even) to  mant * 2^exp2 (+ a positive amount smaller than 2^exp2 when `sticky`)
pub fn round_to_f64(mant: &Big, exp2: i64, sticky: bool) -> f64 {
    let nbits = mant.bits() as i64;
    if nbits == 0 {
        return 0.0;
    }
    let e = exp2 + nbits - 1; // exponent of the leading bit
    if e > 1023 {
        return f64::INFINITY;
    }
    let precision: i64 = if e >= -1022 { 53 } else { 53 - (-1022 - e) };
    if precision < 0 {
        return 0.0; // below half of the smallest subnormal
    }
    let shift = nbits - precision;
    let (mut q, scale): (u64, i64) = if shift > 0 {
        let shift = shift as usize;
        let q = if precision == 0 { 0 } else { mant.extract(shift, precision as usize) };
        let half = mant.bit(shift - 1);
        let rest = mant.low_bits_nonzero(shift - 1) || sticky;
        let up = half && (rest || q & 1 == 1);
        (q + up as u64, exp2 + shift as i64)
    } else {
        assert!(!sticky, "reference arithmetic needs more precision");
        (mant.extract(0, nbits as usize) << ((-shift) as u64), exp2 + shift)
    };
    // q * 2^scale, exact
    if q == 0 {
        return 0.0;
    }
    // normalise so that the intermediate product stays in the normal range
    let tz = q.trailing_zeros() as i64;
    q >>= tz;
    let scale = scale + tz;
    let qbits = 64 - q.leading_zeros() as i64;
    if scale + qbits - 1 > 1023 {
        return f64::INFINITY;
    }
    if scale >= -1000 {
        (q as f64) * pow2(scale)
    } else {
        (q as f64) * pow2(-1000) * pow2(scale + 1000)
    }
}

/// exact value of a decimal text `[+-]?digits[.digits]?([eE][+-]?digits)?` (also ".0"), correctly rounded
pub fn decimal_to_f64(text: &str) -> Option<f64> {
    let (neg, body) = match text.as_bytes().first()? {
        b'-' => (true, &text[1..]),
        b'+' => (false, &text[1..]),
        _ => (false, text),
    };
    let (mant_text, exp_text) = match body.find(['e', 'E']) {
        Some(p) => (&body[..p], Some(&body[p + 1..])),
        None => (body, None),
    };
    let (int_part, frac_part) = match mant_text.find('.') {
        Some(p) => (&mant_text[..p], &mant_text[p + 1..]),
        None => (mant_text, ""),
    };
    if int_part.is_empty() && frac_part.is_empty() {
        return None;
    }
    if !int_part.bytes().all(|c| c.is_ascii_digit()) || !frac_part.bytes().all(|c| c.is_ascii_digit()) {
        return None;
    }
    let mut exp10: i64 = match exp_text {
        None => 0,
        Some(t) => {
            let (eneg, digits) = match t.as_bytes().first()? {
                b'-' => (true, &t[1..]),
                b'+' => (false, &t[1..]),
                _ => (false, t),
            };
            if digits.is_empty() || !digits.bytes().all(|c| c.is_ascii_digit()) {
                return None;
            }
            let trimmed = digits.trim_start_matches('0');
            let v: i64 = if trimmed.len() > 9 { 1_000_000_000 } else { trimmed.parse().unwrap_or(0) };
            if eneg {
                -v
            } else {
                v
            }
        }
    };
    let digits: Vec<u8> = int_part.bytes().chain(frac_part.bytes()).collect();
    exp10 -= frac_part.len() as i64;
    let d = Big::from_digits(&digits, 10);
    let sign = if neg { -1.0 } else { 1.0 };
    if d.is_zero() {
        return Some(sign * 0.0);
    }
    let ndigits = digits.iter().skip_while(|c| **c == b'0').count() as i64;
    // 10^(ndigits-1+exp10) <= value < 10^(ndigits+exp10)
    if ndigits + exp10 > 400 {
        return Some(sign * f64::INFINITY);
    }
    if ndigits + exp10 < -400 {
        return Some(sign * 0.0);
    }
    let v = if exp10 >= 0 {
        let mut m = d;
        m.mul_pow10(exp10 as usize);
        round_to_f64(&m, 0, false)
    } else {
        let n = (-exp10) as usize;
        let den_bits = (n as f64 * 3.3219280948873626) as usize + 2;
        let k = (den_bits + 70).saturating_sub(d.bits()).max(0);
        let mut m = d;
        m.shl(k);
        let sticky = m.div_pow10(n);
        round_to_f64(&m, -(k as i64), sticky)
    };
    Some(sign * v)
}

#[cfg(test)]
mod test {
    use super::*;
    #[test]
    fn agrees_with_std_on_samples() {
        for t in ["1", "0.1", "1e23", "8.5", "4.9e-324", "2.4703282292062327e-324", "2.4703282292062328e-324", "1.7976931348623157e308", "1.7976931348623159e308", "9007199254740993", "0.5e-323", "123456789012345678901234567890"] {
            assert_eq!(decimal_to_f64(t).unwrap().to_bits(), t.parse::<f64>().unwrap().to_bits(), "{t}");
        }
    }
}
