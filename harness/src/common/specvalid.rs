//! The harness's own reading of the documented constraints, applied to an abstract document tree using only
//! the specification crate's lookups (which C18 validates). Independent of the loader and of the editing API.
use super::tree::*;
use autosar_data::*;
use autosar_data_specification::*;
use std::str::FromStr;

#[derive(Debug, Clone, PartialEq, Eq)]
pub struct SpecViolation {
    pub kind: &'static str,
    pub at: String,
}

fn is_ws(c: char) -> bool {
    c.is_ascii_whitespace()
}

/// is every `&` in the raw text the start of a well-formed entity or character reference?
pub fn entities_ok(raw: &str) -> bool {
    let mut rem = raw;
    while let Some(pos) = rem.find('&') {
        rem = &rem[pos..];
        let Some(end) = rem.find(';') else { return false };
        let body = &rem[1..end];
        let ok = match body {
            "lt" | "gt" | "amp" | "apos" | "quot" => true,
            b if b.starts_with("#x") => u32::from_str_radix(&b[2..], 16).ok().and_then(char::from_u32).is_some() && !b[2..].starts_with('+'),
            b if b.starts_with('#') => b[1..].parse::<u32>().ok().and_then(char::from_u32).is_some() && !b[1..].starts_with('+'),
            _ => false,
        };
        if !ok {
            return false;
        }
        rem = &rem[end + 1..];
    }
    true
}

/// membership in the language of a pattern: by the minimal automaton built from the regular expression text (cached);
/// only if the harness cannot parse an expression, the crate's validator is used (C19 compares the two on their own)
pub fn pattern_accepts(regex: &str, check_fn: fn(&[u8]) -> bool, text: &[u8]) -> bool {
    use super::regexdfa::Dfa;
    use std::collections::HashMap;
    use std::sync::{Arc, RwLock};
    static CACHE: RwLock<Option<HashMap<String, Option<Arc<Dfa>>>>> = RwLock::new(None);
    if let Some(entry) = CACHE.read().unwrap().as_ref().and_then(|m| m.get(regex)) {
        return match entry {
            Some(d) => d.accepts(text),
            None => check_fn(text),
        };
    }
    let built = Dfa::from_regex(regex).ok().map(|d| Arc::new(d.minimized()));
    let r = match &built {
        Some(d) => d.accepts(text),
        None => check_fn(text),
    };
    CACHE.write().unwrap().get_or_insert_with(HashMap::new).insert(regex.to_string(), built);
    r
}

/// violations of one value against its spec; `raw` values are judged on their raw text
pub fn value_violations(val: &Val, spec: &CharacterDataSpec, v: AutosarVersion, at: &str, out: &mut Vec<SpecViolation>) {
    let mut add = |kind: &'static str| out.push(SpecViolation { kind, at: at.to_string() });
    let text_owned = val.text();
    let is_raw = matches!(val, Val::Raw(_));
    match spec {
        CharacterDataSpec::Enum { items } => {
            let t = text_owned.trim_matches(is_ws);
            match EnumItem::from_str(t) {
                Err(_) => add("unknown-enum-item"),
                Ok(item) => match items.iter().find(|(i, _)| *i == item) {
                    None => add("enum-item-not-in-this-enumeration"),
                    Some((_, mask)) => {
                        if !v.compatible(*mask) {
                            add("enum-item-not-in-version")
                        }
                    }
                },
            }
        }
        CharacterDataSpec::Pattern { check_fn, max_length, regex } => {
            let t = text_owned.trim_matches(is_ws);
            if max_length.is_some_and(|m| t.len() > m) {
                add("value-too-long");
            }
            // judged by the harness's own automaton of the published regular expression, not by the crate's validator
            if !pattern_accepts(regex, *check_fn, t.as_bytes()) {
                add("pattern-mismatch");
            }
            if is_raw && !entities_ok(t) {
                add("bad-entity");
            }
        }
        CharacterDataSpec::String { max_length, preserve_whitespace } => {
            let t = if *preserve_whitespace { text_owned.as_str() } else { text_owned.trim_matches(is_ws) };
            if max_length.is_some_and(|m| t.len() > m) {
                add("value-too-long");
            }
            if is_raw && !entities_ok(t) {
                add("bad-entity");
            }
        }
        CharacterDataSpec::UnsignedInteger => {
            if text_owned.trim_matches(is_ws).parse::<u64>().is_err() {
                add("not-a-number");
            }
        }
        CharacterDataSpec::Float => {
            if text_owned.trim_matches(is_ws).parse::<f64>().is_err() {
                add("not-a-number");
            }
        }
    }
}

/// all constraint violations of the tree below `root` (an AUTOSAR node) for a file of version `v`
pub fn validate_tree(root: &Node, v: AutosarVersion) -> Vec<SpecViolation> {
    let mut out = vec![];
    if root.name != "AUTOSAR" {
        out.push(SpecViolation { kind: "root-not-AUTOSAR", at: root.name.clone() });
        return out;
    }
    validate_node(root, ElementType::ROOT, v, "", true, &mut out);
    out
}

fn validate_node(n: &Node, t: ElementType, v: AutosarVersion, path: &str, is_root: bool, out: &mut Vec<SpecViolation>) {
    let here = format!("{path}/{}", n.name);
    if !is_root {
        let mut present: Vec<AttributeName> = vec![];
        for (an, val) in &n.attrs {
            match AttributeName::from_str(an) {
                Err(_) => out.push(SpecViolation { kind: "unknown-attribute", at: format!("{here}@{an}") }),
                Ok(name) => match t.find_attribute_spec(name) {
                    None => out.push(SpecViolation { kind: "unknown-attribute", at: format!("{here}@{an}") }),
                    Some(spec) => {
                        present.push(name);
                        if !v.compatible(spec.version) {
                            out.push(SpecViolation { kind: "attribute-not-in-version", at: format!("{here}@{an}") });
                        }
                        value_violations(val, spec.spec, v, &format!("{here}@{an}"), out);
                    }
                },
            }
        }
        for (an, _, required) in crate::common::specgraph::attribute_specs(t).into_iter() {
            if required && !present.contains(&an) {
                out.push(SpecViolation { kind: "required-attribute-missing", at: format!("{here}@{an}") });
            }
        }
    }
    if t.is_named_in_version(v) && !n.children().any(|c| c.name == "SHORT-NAME") {
        out.push(SpecViolation { kind: "short-name-missing", at: here.clone() });
    }
    let mut prev: Option<Vec<usize>> = None;
    let mut seen_names: Vec<&str> = vec![];
    for it in &n.items {
        match it {
            Item::Text(val) => match t.chardata_spec() {
                None => out.push(SpecViolation { kind: "character-content-forbidden", at: here.clone() }),
                Some(spec) => value_violations(val, spec, v, &here, out),
            },
            Item::Node(c) => {
                let Ok(name) = ElementName::from_str(&c.name) else {
                    out.push(SpecViolation { kind: "unknown-element", at: format!("{here}/{}", c.name) });
                    continue;
                };
                let found = match t.find_sub_element(name, v as u32) {
                    Some(f) => Some(f),
                    None => match t.find_sub_element(name, u32::MAX) {
                        Some(f) => {
                            out.push(SpecViolation { kind: "element-not-in-version", at: format!("{here}/{}", c.name) });
                            Some(f)
                        }
                        None => {
                            out.push(SpecViolation { kind: "element-not-allowed-here", at: format!("{here}/{}", c.name) });
                            None
                        }
                    },
                };
                let Some((ct, idx)) = found else { continue };
                if let Some(p) = &prev {
                    if *p != idx && t.find_common_group(p, &idx).content_mode() == ContentMode::Choice {
                        out.push(SpecViolation { kind: "choice-conflict", at: format!("{here}/{}", c.name) });
                    }
                }
                let container = t.get_sub_element_container_mode(&idx);
                if matches!(container, ContentMode::Sequence | ContentMode::Choice)
                    && t.get_sub_element_multiplicity(&idx).is_some_and(|m| m != ElementMultiplicity::Any)
                    && seen_names.contains(&c.name.as_str())
                {
                    out.push(SpecViolation { kind: "too-many-sub-elements", at: format!("{here}/{}", c.name) });
                }
                seen_names.push(&c.name);
                prev = Some(idx);
                validate_node(c, ct, v, &here, false, out);
            }
        }
    }
}

/// what a copy of `n` (an element of type `t`) into a file of version `v` must contain, by the harness's reading:
/// an element is kept iff its name is a sub-element of its parent's type in `v`; an attribute iff its version mask and,
/// for enumeration values, the value's mask contain `v`; an element whose required attribute cannot be kept is omitted
/// as a whole (None), and so is an element whose enumeration value does not exist in `v` or that lacks the SHORT-NAME its
/// type requires in `v`. Other character data is kept as it is.
pub fn spec_filter(n: &Node, t: ElementType, v: AutosarVersion) -> Option<Node> {
    if t.is_named_in_version(v) && n.children().next().map(|c| c.name.as_str()) != Some("SHORT-NAME") {
        return None;
    }
    let mut out = Node::new(&n.name);
    out.comment = n.comment.clone();
    for (an, val) in &n.attrs {
        let Ok(name) = AttributeName::from_str(an) else { continue };
        // an attribute the (target) type does not have is a part not permitted there: omitted
        let Some(spec) = t.find_attribute_spec(name) else { continue };
        let mut keep = v.compatible(spec.version);
        if keep {
            if let (CharacterDataSpec::Enum { items }, Val::Enum(item)) = (spec.spec, val) {
                keep = items.iter().any(|(i, m)| i.to_str() == item && v.compatible(*m));
            }
        }
        if keep {
            out.attrs.push((an.clone(), val.clone()));
        } else if spec.required {
            return None;
        }
    }
    let mut prev: Option<Vec<usize>> = None;
    for it in &n.items {
        match it {
            Item::Text(val) => {
                // an enumeration value that does not exist in `v` cannot be kept and the element has no other value: omitted as a whole
                if let (Some(CharacterDataSpec::Enum { items }), Val::Enum(item)) = (t.chardata_spec(), val) {
                    if !items.iter().any(|(i, m)| i.to_str() == item && v.compatible(*m)) {
                        return None;
                    }
                }
                out.items.push(Item::Text(val.clone()))
            }
            Item::Node(c) => {
                let Ok(name) = ElementName::from_str(&c.name) else { continue };
                if let Some((ct, idx)) = t.find_sub_element(name, v as u32) {
                    // an exclusive alternative (in the type of `v`) of the element kept before it cannot be kept as well
                    if prev.as_ref().is_some_and(|p: &Vec<usize>| *p != idx && t.find_common_group(p, &idx).content_mode() == ContentMode::Choice) {
                        continue;
                    }
                    if let Some(fc) = spec_filter(c, ct, v) {
                        out.items.push(Item::Node(fc));
                        prev = Some(idx);
                    }
                }
            }
        }
    }
    Some(out)
}
