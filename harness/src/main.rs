#![allow(dead_code)]
//! vcheck: bounded exhaustive checks for the properties in /verif/properties.jsonl
mod common;
mod engine;
mod props;

use common::{Ctx, Tier};

fn main() {
    let args: Vec<String> = std::env::args().collect();
    if args.len() < 3 {
        eprintln!("usage: vcheck <ID> <quick|thorough> | vcheck <ID> --replay <path> | vcheck child <kind> <args..>");
        std::process::exit(2);
    }
    common::install_panic_hook();
    // every sequential engine runs with the sequential lock hook: worker threads of the pool and the main thread
    rayon::ThreadPoolBuilder::new().start_handler(|_| common::seqhook::install()).build_global().expect("thread pool");
    common::seqhook::install();
    if args[1] == "child" {
        std::process::exit(props::child(&args[2..]));
    }
    let id = args[1].as_str();
    if args[2] == "--replay" {
        let path = args.get(3).expect("--replay needs a path");
        std::process::exit(props::replay(id, path));
    }
    let tier = match args[2].as_str() {
        "quick" => Tier::Quick,
        "thorough" => Tier::Thorough,
        t => {
            eprintln!("unknown tier {t}");
            std::process::exit(2);
        }
    };
    // a panic that escapes every guard is a failure of the machinery (exit 2), never a verdict
    let code = match std::panic::catch_unwind(|| props::run(id, tier)) {
        Ok(c) => c,
        Err(_) => {
            println!("MACHINERY: the check was aborted by a panic outside its guards ({})", common::last_panic_loc());
            2
        }
    };
    std::process::exit(code);
}

pub fn ctx(id: &'static str, tier: Tier) -> Ctx {
    Ctx::new(id, tier)
}
