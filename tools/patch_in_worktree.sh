#!/bin/bash
# Development tool: applies a patch (mutant or seeded change) in the scratch worktree /tmp/wt_m (created from /repo HEAD
# on first use, kept for incremental builds; remove with `git -C /repo worktree remove --force /tmp/wt_m`) and runs
# a check against it without touching /repo. usage: tools/patch_in_worktree.sh <patch file> <PROP> [quick|thorough]
set -u
patch=$(realpath "$1"); prop=$2; tier=${3:-quick}
wt=/tmp/wt_m
[ -d $wt ] || git -C /repo worktree add -q --detach $wt HEAD || exit 2
git -C $wt checkout -q -- . && git -C $wt checkout -q --detach $(git -C /repo rev-parse HEAD) || exit 2
git -C $wt apply "$patch" || { echo "$(basename $patch): DOES NOT APPLY"; exit 2; }
out=$(/verif/tools/check_in_worktree.sh $wt $prop $tier 2>&1); code=$?
echo "$(basename $(dirname $patch))/$(basename $patch): check $prop $tier exit=$code violations=$(echo "$out" | grep -c '^VIOLATION') $(echo "$out" | grep -m1 '  key:' | cut -c1-200)"
git -C $wt checkout -q -- .
