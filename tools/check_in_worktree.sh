#!/bin/bash
# Development tool (not a registered command): runs a check against a scratch copy of the repository instead of /repo,
# e.g. a worktree with a seeded change applied, while /repo stays untouched. Evidence and replays go to <wt>/.vout.
# usage: tools/check_in_worktree.sh <worktree> <PROP> <quick|thorough>
set -u
wt=$1; prop=$2; tier=$3
h=$wt/.vharness
mkdir -p $h $wt/.vout
# VERIF_FROZEN_HARNESS=1: keep the copy of the harness made by an earlier call (a long pass is then not disturbed by edits in /verif/harness)
if [ "${VERIF_FROZEN_HARNESS:-0}" != 1 ] || [ ! -f $h/Cargo.toml ]; then
  rsync -a --delete --exclude .cargo /verif/harness/ $h/
  sed -i "s#/repo/#$wt/#g" $h/Cargo.toml
fi
mkdir -p $h/.cargo; printf '[net]\noffline = true\n[build]\ntarget-dir = "%s/.vtarget"\n' "$wt" > $h/.cargo/config.toml
(cd $h && cargo build --release --offline 2>&1 | grep -E "^error" -A8 | head -30)
VERIF_OUT_DIR=$wt/.vout $wt/.vtarget/release/vcheck $prop $tier
