#!/bin/bash
# Confirms a seeded change in a scratch worktree (outside /repo): the repository's tests pass with the change,
# the sub-agent's demonstration fails with it and passes without it. Then copies it to /verif/seeded/<name>/.
# usage: tools/confirm_seeded.sh /tmp/wt_c09 C09 c09_merge_membership_three_files
set -u
wt=$1; prop=$2; name=$3
export CARGO_TARGET_DIR=$wt/target
cd $wt || exit 2
[ -f SEEDED/patch.diff ] || { echo "no SEEDED/patch.diff"; exit 2; }
git checkout -q -- autosar-data/src autosar-data-specification/src
cp SEEDED/seeded_demo.rs autosar-data/examples/seeded_demo.rs
cargo run --offline -q --example seeded_demo >/tmp/seeded_without.log 2>&1; without=$?
git apply SEEDED/patch.diff || { echo "patch does not apply"; exit 2; }
cargo test --workspace --offline >/tmp/seeded_tests.log 2>&1; tests=$?
ntests=$(grep -E "^test result: ok" /tmp/seeded_tests.log | awk '{s+=$4} END {print s}')
cargo run --offline -q --example seeded_demo >/tmp/seeded_with.log 2>&1; with=$?
echo "$name: tests exit=$tests ($ntests passed)  demo without change exit=$without  with change exit=$with"
if [ $tests = 0 ] && [ $without = 0 ] && [ $with != 0 ]; then
  d=/verif/seeded/$name; mkdir -p $d
  cp SEEDED/patch.diff $d/patch.diff; cp SEEDED/seeded_demo.rs $d/seeded_demo.rs; cp SEEDED/notes.md $d/notes.md
  cat > $d/meta.json <<META
{"property": "$prop", "name": "$name", "source": "fresh sub-agent given only the text of $prop and a scratch worktree",
 "confirmed": {"repo_tests_with_change": "pass ($ntests tests incl. doc tests)", "demo_without_change_exit": $without, "demo_with_change_exit": $with,
               "commands": ["cargo test --workspace --offline", "cargo run --offline --example seeded_demo (with and without patch.diff)"]},
 "needs_to_manifest": "see notes.md"}
META
  echo "kept in $d"
else
  echo "NOT kept"
fi
