#!/usr/bin/env python3
"""Development-time helper (never run by a check): after a thorough run of C15 / C16 on the unchanged tree, turn the
reported violations (replays/<ID>/*.json) into known-finding entries for manual curation. Usage: tools/gen_conc_findings.py C15 C16"""
import json, glob, sys
kfp = '/verif/known_findings.json'
kf = json.load(open(kfp))
for prop in sys.argv[1:]:
    # replay files exist only for violations that are not listed yet: new entries are merged into the list
    have = {f['key'] for f in kf['findings'] if f['property'] == prop}
    for path in sorted(glob.glob(f'/verif/replays/{prop}/*.json')):
        r = json.load(open(path))
        key, w = r['key'], r['witness']
        if key in have:
            continue
        ops = ' || '.join(w.get('ops', []))
        if prop == 'C15':
            what = f"deadlock: {ops} can block each other forever ({key.split('|')[-1]}); " + '; '.join(w.get('blocked', []))[:400]
        else:
            what = f"{ops}: {key.split('|')[-1].replace('-', ' ')}; concurrent results {w.get('results')}"[:500]
        kf['findings'].append({'property': prop, 'key': key, 'what': what,
                               'witness': {'ops': w.get('ops'), 'preemption_bound': w.get('preemption_bound'), 'schedule': w.get('schedule')}})
json.dump(kf, open(kfp, 'w'), indent=2)
print({p: sum(1 for f in kf['findings'] if f['property'] == p) for p in sys.argv[1:]})
