#!/usr/bin/env python3
"""dev tool (never run by a check): append a 'fixed:' line to known_findings.json keeping its formatting.
usage: tools/add_fixed.py <PROP> <commit> <what failed>"""
import json, sys
p = '/verif/known_findings.json'
d = json.load(open(p))
prop, commit, what = sys.argv[1], sys.argv[2], sys.argv[3]
d['fixed'].append(f"fixed: property={prop} {commit} {what}")
open(p, 'w').write(json.dumps(d, indent=2) + "\n")
