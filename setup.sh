#!/bin/bash
# setup_cmd: build the harness (hooks on) from files on disk only
set -e
cd /verif/harness
export CARGO_NET_OFFLINE=true
cargo build --release --offline 2>&1 | tail -3
