#!/usr/bin/env python3
"""Generates /verif/MANIFEST.json. Edit CHECKS / PLANNED here, then run ./mkmanifest.py && ./validate.sh"""
import json

HOOK_COMMITS = ["5cccbdb", "1265dc6"]

ENGINES = {
    "lexenum": ("harness/src/props/c02.rs", "exhaustive enumeration of byte strings over a token alphabet, of all single/double edits of seed documents and of all prefixes; every string is run through the real loader"),
    "tablesweep": ("harness/src/props/c18.rs", "complete sweep of the finite specification tables and of all one-edit neighbours of every name"),
    "dfaconf": ("harness/src/props/c19.rs", "regex -> minimal DFA reference model; W-method conformance suites and exhaustive short-string enumeration replayed on the real validator functions"),
    "specwalk": ("harness/src/common/specgraph.rs", "breadth-first walk over the finite specification graph (element types x versions); every edge/attribute/value kind is instantiated in generated documents and run through the real code"),
    "histx": ("harness/src/engine/histx.rs", "explicit-state breadth-first search over histories of public API calls on the real model; canonical-state hashing; invariants in every state, transition oracles on every transition"),
    "schedx": ("harness/src/engine/schedx.rs", "stateless controlled-scheduler exploration of real threads at lock-acquisition granularity with a parking_lot lock model; preemption-bounded DFS"),
}

# id -> dict(engine, category, text, note, technique, design)
CHECKS = {
    "C01": dict(
        engine="specwalk+lexenum", category="model_checking", design="DESIGN.md section 5, C01",
        technique="exhaustive walk of the finite specification graph (every reachable element type x sub-element edge x attribute x character-data spec, per version) instantiated as documents by an independent printer, plus bounded exhaustive value/encoding/layout enumeration; every document executed on the real loader and serializer and compared with the generator's tree",
        text="For each of the 21 versions a generator builds documents (abstract trees printed by the harness's own XML printer in 1-4 layouts/quote/entity styles) containing every (element type, sub-element) edge, every attribute and every character-data spec valid in that version; the loaded model must equal the generator's tree, load->serialize->load must be the identity (tree, path index, referrer keys) and the second serialization byte-identical, strict and lenient, with no warnings. For one slot per distinct character-data spec (element, attribute and mixed position) all strings of <= 3 (4) characters over a 12-character alphabet of escapable/whitespace/unicode characters, all pattern members through every automaton transition, enum items and numeric forms are written in every entity encoding x quote style x layout. Hand-written specials cover comments and processing instructions in every position; a document with comments inside character data (names, enum values, numbers, references, entities next to the comment) must load to the model of the same document without them.",
        note="Trusted: the harness printer and the whitespace rule of DESIGN section 8 (whitespace-only runs and outer whitespace of non-preserving kinds are insignificant). Values longer than the bound and encodings other than UTF-8 are outside."),
    "C02": dict(
        engine="lexenum", category="exploration", design="DESIGN.md section 5, C02",
        technique="bounded exhaustive enumeration of inputs (all token strings up to length L, all 1-2 edit neighbours and all prefixes of seed documents) executed on the real loader",
        text="Every byte string composed of <= 4 (thorough 5) tokens of a 40-token XML alphabet, every prefix and every single (thorough: every pair of) token/byte edit of 12 seed documents and a nesting ladder are loaded strictly, leniently and probed with check_buffer; panics, aborts, hangs, out-of-range error lines and check_buffer/load disagreement are violations. Exhaustive inside these bounds, silent outside them.",
        note="Trusted: catch_unwind reports every panic; a stack overflow is only observed in the child-process ladder. Inputs longer than the bound that are not within 2 edits of a seed are not covered."),
    "C03": dict(
        engine="histx", category="model_checking", design="DESIGN.md sections 3 and 5, C03",
        technique='explicit-state breadth-first search over histories of public API calls executed on the real model (states = histories replayed from seed models, merged by a canonical form of files, tree, membership, path index and referrer lists); invariants evaluated in every state, transition oracles on every transition',
        text="All histories of depth <= 2 (thorough 3) over create / create-at / named / copy / move / remove / rename / SHORT-NAME edit / sort (and, to depth 2, the file operations and the full alphabet) from six seed models; in every state the harness's own walk must agree with parent(), position(), get_sub_element_at(), model(), sub_elements(), and the model-, element- and file-scoped depth-first iterators with and without depth limit; after every transition every place-dependent method is called through every handle that is no longer reachable from the root (20 methods x up to 12 stale handles): each must fail and the live model's canonical form must not change.",
        note='Trusted: equal canonical forms have equal futures; stale handles are swept per transition replay rather than kept in the state key. Histories longer than the depth bound and universes other than the nine seed models (and the second model that elements are moved to and from) are outside. A transition that hits a recorded known finding of any property is not expanded.'),
    "C04": dict(
        engine="histx", category="model_checking", design="DESIGN.md sections 3 and 5, C04",
        technique='explicit-state breadth-first search over histories of public API calls executed on the real model (states = histories replayed from seed models, merged by a canonical form of files, tree, membership, path index and referrer lists); invariants evaluated in every state, transition oracles on every transition',
        text="Same exploration (tree, file/load and full alphabets). In every state: every identifiable element's path() equals the concatenation of the item names of its identifiable ancestors, no two elements share a path, identifiable_elements() lists exactly these (path, element) pairs once, get_element_by_path returns that very element and returns nothing for seven near-miss variants of every path.",
        note='Trusted: equal canonical forms have equal futures; stale handles are swept per transition replay rather than kept in the state key. Histories longer than the depth bound and universes other than the nine seed models (and the second model that elements are moved to and from) are outside. A transition that hits a recorded known finding of any property is not expanded.'),
    "C05": dict(
        engine="histx", category="model_checking", design="DESIGN.md sections 3 and 5, C05",
        technique='explicit-state breadth-first search over histories of public API calls executed on the real model (states = histories replayed from seed models, merged by a canonical form of files, tree, membership, path index and referrer lists); invariants evaluated in every state, transition oracles on every transition',
        text='Histories over reference-related operations (set_reference_target, set_character_data on references with every existing / dangling / future path, remove_character_data, DEST edits, rename, move within and between models, remove, copy, load). In every state: for every key of the referrer map (hook), every path and every reference text the live entries of get_references_to equal the references in the tree with that text; check_references equals the set of references whose text does not resolve or whose DEST does not fit; a reference is absent from the report exactly when get_reference_target returns the element the walk finds.',
        note='Trusted: equal canonical forms have equal futures; stale handles are swept per transition replay rather than kept in the state key. Histories longer than the depth bound and universes other than the nine seed models (and the second model that elements are moved to and from) are outside. A transition that hits a recorded known finding of any property is not expanded.'),
    "C06": dict(
        engine="histx", category="model_checking", design="DESIGN.md sections 3 and 5, C06",
        technique='explicit-state breadth-first search over histories of public API calls executed on the real model (states = histories replayed from seed models, merged by a canonical form of files, tree, membership, path index and referrer lists); invariants evaluated in every state, transition oracles on every transition',
        text='Every rename and same-model move / move-at transition of the reference alphabet from seeds with several referrers per target, nested targets, /a1 vs /a10 prefixes, dangling references equal to future paths: every reference that designated the moved element or an identifiable element below it designates the same element object afterwards, every other reference keeps its text and, if it designated an element outside the moved subtree, still designates that element - also when the destination already holds the name of the moved element and its first replacement name (dangling references below the old path: either outcome).',
        note='Trusted: equal canonical forms have equal futures; stale handles are swept per transition replay rather than kept in the state key. Histories longer than the depth bound and universes other than the nine seed models (and the second model that elements are moved to and from) are outside. A transition that hits a recorded known finding of any property is not expanded.'),
    "C10": dict(
        engine="histx", category="model_checking", design="DESIGN.md sections 3 and 5, C10",
        technique='explicit-state breadth-first search over histories of public API calls executed on the real model (states = histories replayed from seed models, merged by a canonical form of files, tree, membership, path index and referrer lists); invariants evaluated in every state, transition oracles on every transition',
        text="Histories over create_file, remove_file, add_to_file, remove_from_file, set_filename, set_version, load_buffer (8 documents), named creation and removal from one- and two-file seeds. In every state: local file sets are subsets of the model's files and of the parent's effective set, every element is in some file's view, file-scoped iteration equals the membership-derived view, and every file's text loads on its own and has exactly the elements attributed to it; remove_file removes exactly the elements attributed to that file alone and leaves the content of every other file unchanged.",
        note='Trusted: equal canonical forms have equal futures; stale handles are swept per transition replay rather than kept in the state key. Histories longer than the depth bound and universes other than the nine seed models (and the second model that elements are moved to and from) are outside. A transition that hits a recorded known finding of any property is not expanded.'),
    "C11": dict(
        engine="histx", category="model_checking", design="DESIGN.md sections 3 and 5, C11",
        technique='explicit-state breadth-first search over histories of public API calls executed on the real model (states = histories replayed from seed models, merged by a canonical form of files, tree, membership, path index and referrer lists); invariants evaluated in every state, transition oracles on every transition',
        text='Every failing call of the full alphabet (invalid names, duplicate names, invalid positions, foreign handles, descendants as destination, version mismatch, loads failing in the lexer, parser, merge and overlap stages) in every state to depth 1 (thorough 2), file operations to depth 2 (3): the canonical form of both models (tree with all values and comments, files, membership, path index, referrer lists over all keys) is identical before and after.',
        note='Trusted: equal canonical forms have equal futures; stale handles are swept per transition replay rather than kept in the state key. Histories longer than the depth bound and universes other than the nine seed models (and the second model that elements are moved to and from) are outside. A transition that hits a recorded known finding of any property is not expanded.'),
    "C12": dict(
        engine="histx", category="model_checking", design="DESIGN.md sections 3 and 5, C12",
        technique='explicit-state breadth-first search over histories of public API calls executed on the real model (states = histories replayed from seed models, merged by a canonical form of files, tree, membership, path index and referrer lists); invariants evaluated in every state, transition oracles on every transition',
        text='Every transition of the full alphabet to depth 1 (thorough 2) and of the structural core to depth 2 (3) from all seeds including the leniently loaded one, under the sequential lock hook: no panic, no ParentElementLocked, no blocking acquisition of a lock the calling thread already holds (turned into a report instead of a hang), no lock left held; after every transition ~60 read-only methods on every element, file and model and every place-dependent method through stale handles. Value-level API: every string of <= 3 (thorough 4) characters over 20 characters incl. 2-, 3-, 4-byte UTF-8, plus texts at the limits of the numeric types and long digit runs, through every public function that takes or interprets a text (also lenient load + compare + sort). Specification API: every u32 with <= 2 bits set, complements and extremes as version mask / value; every element type with its listed names and the index lists returned for them.',
        note='Trusted: equal canonical forms have equal futures; stale handles are swept per transition replay rather than kept in the state key. Histories longer than the depth bound and universes other than the nine seed models (and the second model that elements are moved to and from) are outside. A transition that hits a recorded known finding of any property is not expanded.'),
    "C13": dict(
        engine="histx", category="model_checking", design="DESIGN.md sections 3 and 5, C13",
        technique='explicit-state breadth-first search over histories of public API calls executed on the real model (states = histories replayed from seed models, merged by a canonical form of files, tree, membership, path index and referrer lists); invariants evaluated in every state, transition oracles on every transition',
        text="Every copy / copy-at transition (any live or foreign element into any plausible parent): content equals the source filtered by what the destination's version permits, apart from a numeric suffix on the copy's own name; every copied identifiable resolves by its path and every copied reference is listed; no element object is shared; the source model is unchanged. duplicate() in every state to depth 1: per-file text, tree, membership and indexes equal, and every operation of the full alphabet applied to either side leaves the other side's canonical form unchanged. Cross-version copy: the full-coverage document of 4 (thorough: 21) source versions, every top-level package copied into an empty model of each of the 21 versions: copy equals the specification-filtered source, destination validates and loads strictly, indexes complete, source unchanged.",
        note='Trusted: equal canonical forms have equal futures; stale handles are swept per transition replay rather than kept in the state key. Histories longer than the depth bound and universes other than the nine seed models (and the second model that elements are moved to and from) are outside. A transition that hits a recorded known finding of any property is not expanded.'),
    "C09": dict(
        engine="histx", category="model_checking", design="DESIGN.md section 5, C09",
        technique="exhaustive enumeration of file distributions: every assignment of a non-empty file subset to every child of a splittable element of eight master models, sibling-order and version variants, every load order; every merge executed on the real loader and compared with the master tree and with each file loaded alone",
        text="For eight master models (nested packages, mixed-kind ELEMENTS bags incl. every sibling order per file, BSW containers and parameter values of two kinds keyed by DEFINITION-REF, an element kind that only the newer file version has, a specification-ordered parent split between files of two versions) every distribution over 2 and 3 (thorough: also 4) files that splits only below splittable elements, with reversed sibling order and mixed versions per file, is loaded in every order: the merged model equals the master (each element once; below parents whose content order is fixed by the specification also in that order), every element is attributed to exactly the files that contained it, every file serialized from the merged model has the content of that file loaded alone, all C03-C05 invariants hold; the documented path conflict and a divergence found after a new package was imported must be rejected and rejected files must leave no trace.",
        note="Trusted: the splittable flags of the specification tables decide where a child may have its own file set. Masters with more slots than the tier's cap for a given number of files are skipped for that number (listed in the evidence)."),
    "C14": dict(
        engine="histx", category="model_checking", design="DESIGN.md section 5, C14",
        technique="exhaustive permutation enumeration: every sub-multiset (up to a size) of an item pool per scenario, created in every order, sorted by the real code; results compared across all orders of one multiset; plus the complete comparison matrix of Element::cmp over finite universes of real elements (every identifier of <= 3 / 4 characters over {a,b,0,1,2,_} and extreme digit runs; containers name x INDEX; parameter values DEFINITION-REF x INDEX x VALUE; references DEST x text; float-valued content) checked for the total-preorder axioms",
        text="Comparator axioms: reflexive, antisymmetric, transitive on every universe, distinct names / float values never equal. Eight scenarios (key-less siblings with unsorted content; packages with names a, a1, a2, a10, a1b, b; mixed kinds in an ELEMENTS bag; containers with INDEX values incl. 0x2; parameter values keyed by DEFINITION-REF with equal keys, different values and comments; references ordered by DEST; two ordered parents) x every sub-multiset of <= 5 (thorough 7) siblings x every distinct creation order: sort never panics, keeps every element object, value, attribute and comment, leaves ordered parents untouched, keeps all path/reference invariants and strict loadability, is idempotent, and gives the same text (comments aside) for every creation order. Full documents: the full-coverage document of 5 (21) versions sorted through AutosarModel::sort and through Element::sort per package keeps the specification order of that version everywhere, loses nothing, and the same document with the children of every sortable parent reversed sorts to the same text. Names that only a non-strict load can bring in (multi-byte characters, digit first, space): every subset of <= 4 (5) of 10 names as sibling packages in every file order is loaded leniently and sorted - no panic, nothing lost, idempotent, one result per subset.",
        note="Trusted: comparison with comments removed (siblings identical up to comments may keep their order). Item pools are fixed; other names and sibling counts above the bound are outside."),
    "C15": dict(
        engine="schedx", category="model_checking", design="DESIGN.md sections 4 and 5, C15",
        technique='stateless model checking of the implementation: real threads under a controlled scheduler (every lock acquisition of the crate is a scheduling point through the verif lock shim), a parking_lot RwLock admission model bound to the real lock, preemption-bounded depth-first enumeration of all schedules by prefix replay',
        text="All 1494 reader-writer, writer-writer and same-operation pairs and 6 triples of a 59-operation catalogue (serialize, path, lookups, check_references, duplicate, create, copy, move, remove, rename, reference edits, comment, attribute, sort, create_file, remove_file, two loads, set_version, remove_from_file) on a shared seed model: every schedule with at most 1 (thorough 2) preemptions, including every timeout choice of timed acquisitions, is executed on the real code; a state in which unfinished threads exist and no lock transition (including timeouts) is enabled is a deadlock. Each reported schedule is replayed twice and must behave identically.",
        note='Trusted: all shared state of the crate is behind the intercepted locks (no unsafe, atomics or static mut in autosar-data); the lock model (checked against parking_lot in 14 situations at the start of every run and at every granted step); file locks are modelled but are not branching points. More than 3 threads, schedules needing more preemptions than the bound, and tuples whose exploration exceeds the execution budget (listed in the evidence with the bound they completed) are outside.'),
    "C16": dict(
        engine="schedx", category="model_checking", design="DESIGN.md sections 4 and 5, C16",
        technique='stateless model checking of the implementation: real threads under a controlled scheduler (every lock acquisition of the crate is a scheduling point through the verif lock shim), a parking_lot RwLock admission model bound to the real lock, preemption-bounded depth-first enumeration of all schedules by prefix replay' + "; oracle = the same calls run sequentially in every order on a fresh seed",
        text="Same tuples and schedules as C15. For every complete execution the returned values and the final canonical form of the model (files, tree, membership, path index, referrer lists) must equal those of some sequential order of the same calls, where calls that returned ParentElementLocked are dropped from the order and must have left no trace; all structural and index invariants must hold in the final state of serializable outcomes.",
        note='Trusted: all shared state of the crate is behind the intercepted locks (no unsafe, atomics or static mut in autosar-data); the lock model (checked against parking_lot in 14 situations at the start of every run and at every granted step); file locks are modelled but are not branching points. More than 3 threads, schedules needing more preemptions than the bound, and tuples whose exploration exceeds the execution budget (listed in the evidence with the bound they completed) are outside.'),
    "C07": dict(
        engine="specwalk", category="model_checking", design="DESIGN.md section 5, C07",
        technique="explicit-state exploration per content model: every datatype x version, every content state reachable by <= 2-3 creations, every candidate sub-element at every position (create-at, copy-at, move-at), every value/attribute candidate; each step executed through the real editing API and compared with the harness's own order checker and table-driven validator, then serialized and reloaded leniently",
        text="For every distinct content model (datatype) of 4 (thorough: 21) versions: list_valid_sub_elements equals the specification listing and its is_named / is_allowed flags are right in every explored state; create_at(p) succeeds <=> p is in calc_element_insert_range <=> inserting at p keeps the harness's specification order, and the range is exactly the set of valid positions; auto-positioned creation fails only if no position is valid; copy-at/move-at from a second model and moves within the parent obey the same rule; every package of the full-coverage document copied into a file of another version (adjacent versions; thorough: all 441 pairs) validates and loads strictly there; in a model with an older and a newer file owning one package each, every ELEMENTS member kind (and every direct child kind) that only the newer version has is moved into the older file's package with move_element_here / move_element_here_at: whatever the call answers, no file gains a loader complaint; set_character_data / set_attribute / set_attribute_string accept a value <=> it is permitted for the spec in the file's version (all enum items, pattern members and non-members, length boundaries, wrong kinds, unlisted and version-foreign attributes); after every successful step the file is serialized and loaded leniently: same content, no warning other than RequiredAttributeMissing, and the harness validator finds nothing else.",
        note="Trusted: harness order checker valid_children (pairwise reading of the group structure) and specvalid. Content states deeper than the creation bound and parents with more than 60 candidate sub-elements (reduced to 3 prior children x 40 candidates) are not covered completely."),
    "C08": dict(
        engine="specwalk", category="model_checking", design="DESIGN.md section 5, C08",
        technique="exhaustive walk of the specification graph: for every reachable (element type, sub-element) edge per version a minimal document with each applicable defect (and each pair of defects) injected; every document run through strict and lenient loading and judged by the harness's own table-driven validator",
        text="For every element type x sub-element edge of 4 (thorough: all 21) versions: the valid single-edge document, its relabelling to 3-6 other versions, unknown / misplaced / version-foreign elements and attributes, every pair of exclusive alternatives (quick: <= 40 per type), every doubled child, missing SHORT-NAME, every missing required attribute, over-long values, pattern non-members, non-numbers, unknown / foreign / version-foreign enum items, nine malformed entities, forbidden text, and all pairs child-defect x parent/sibling-defect; plus trailing data (also behind a comment, processing instruction or whitespace), version labels, header variants and all prefixes of the seed documents. Oracles: strict Ok <=> lenient Ok without warnings and then equal models; lenient warnings => strict error equal to the first warning; lenient Err => strict Err; harness validator finds a documented violation => strict Err.",
        note="Trusted: harness/src/common/specvalid.rs (reads the specification tables that C18 checks). Defects deeper than one edge below the chain and more than two defects per document are outside."),
    "C17": dict(
        engine="specwalk", category="model_checking", design="DESIGN.md section 5, C17",
        technique="exhaustive walk of the specification graph: every (element type, sub-element) edge, attribute and partially-available enum item as a minimal document of each source version, checked against all 21 target versions; reference = strict load of the same tree printed with the target header",
        text="For all 21 source versions x every edge x the targets {previous, next, first, last version} (thorough: all 21 targets): check_version_compatibility is empty <=> the relabelled text loads strictly <=> the returned mask contains the target; set_version succeeds <=> the check is empty, leaves the content unchanged, and the re-serialized file loads strictly with the new version; a second file in the model must not influence the result of the first.",
        note="Trusted: the strict loader as reference for 'valid in the target version' (C08 checks it has no holes). Documents with more than one edge below the chain are outside."),
    "C18": dict(
        engine="tablesweep", category="exploration", design="DESIGN.md section 5, C18",
        technique="complete enumeration of the finite specification tables (all names, items, versions, element definitions x versions, reference x target datatype pairs) and of all 1-edit (thorough: 2-edit) neighbour strings",
        text="Every element name, attribute name and enum item (complete tables through the verif hook) is converted text->item->text; every one-edit neighbour, truncation and extension of every text (thorough: every two-edit neighbour, 1.9e9 strings) must be rejected unless it is itself a member; every version value/bit/file name; for all 9160 element definitions x 21 versions every listed sub-element and attribute is looked up and every unlisted name is looked up per datatype; every reference datatype x identifiable datatype pair is checked for DEST proposals. The finite part of the property is covered completely. DEST lookup completeness: no proposal only if the DEST enumeration and the values the target accepts share nothing.",
        note="Trusted: the verif hook returns the very tables the lookups use. Non-member texts further than two edits from every member are not enumerated."),
    "C19": dict(
        engine="dfaconf", category="model_checking", design="DESIGN.md section 5, C19",
        technique="explicit-state model (minimal DFA compiled from the published regex by the harness's own parser) with W-method conformance suites and exhaustive short-string enumeration replayed on the real validator functions; model cross-checked against the regex crate on every string",
        text="For each of the 28 validator/regex pairs the minimal DFA of the regex is the model; the suite state-cover x all 256 bytes x characterisation set covers every transition of the model with every byte value, cover x reduced-alphabet^(<=k+1) x W detects any implementation with up to k extra states (k=1 quick, 2-3 thorough), plus all strings up to length 5-6 (thorough up to 10) over the reduced alphabet and all one-byte edits of a member through every state. Every string is executed on the real check function and compared with the model.",
        note="Trusted: the harness's regex->DFA construction (bound to the regex crate on every tested string; disagreement is a machinery error). '.' is any byte except LF; CR is not judged for regexes using '.'. Implementations with more than k extra states may hide differences on long strings."),
    "C20": dict(
        engine="dfaconf", category="model_checking", design="DESIGN.md section 5, C20",
        technique="exhaustive enumeration of all members (up to a length bound) of the integer/numerical/boolean pattern automata and of value alphabets, each executed on the real parse/format functions and compared with an independent integer-arithmetic reference",
        text="Every member of length <= 8 (thorough 10) of the integer, numerical and boolean patterns over a 19-character alphabet plus ~550 boundary texts (2^k-1, 2^k, 2^k+1 in every radix for k up to 128, extreme exponents) is interpreted with parse_integer for 12 integer types, parse_float and parse_bool and compared with a big-integer reference (correct rounding half-to-even, bound to std on decimal forms). 49152 f64 bit patterns (every exponent x sign x 12 mantissas), ~330 u64 boundary values and all strings of <= 3 (4) characters over an escapable alphabet are formatted and parsed back through set_attribute_string and through serialize+load; every enum item of every attribute enum spec is round-tripped in 4 (21) versions. Typed slots: every member of <= 5 (6) characters of the three patterns and the boundary texts is set on a character element whose specification is that pattern (accepted, read back unchanged, interpreted like the reference) and loaded strictly from a file holding it.",
        note="Trusted: the reference arithmetic in harness/src/common/bignum.rs. Values outside the alphabets and texts longer than the bound are not covered. Whitespace-only strings are not values in the file route."),
}

PLANNED = {
    "C01": "specwalk + lexenum", "C03": "histx", "C04": "histx", "C05": "histx", "C06": "histx", "C07": "specwalk",
    "C08": "specwalk + lexenum", "C09": "histx (distributions)", "C10": "histx", "C11": "histx", "C12": "histx",
    "C13": "histx + specwalk", "C14": "histx (permutations)", "C15": "schedx", "C16": "schedx", "C17": "specwalk",
    "C18": "table sweep", "C19": "dfaconf", "C20": "dfaconf",
}


def main():
    try:
        import manifest_local  # optional overrides written by later steps
        CHECKS.update(manifest_local.CHECKS)
    except ImportError:
        pass
    checks = []
    for pid in sorted(CHECKS):
        c = CHECKS[pid]
        checks.append({
            "property_id": pid,
            "quick_cmd": f"./check {pid} quick",
            "thorough_cmd": f"./check {pid} thorough",
            "evidence_file": f"evidence/{pid}.json",
            "replay_cmd_template": f"./check {pid} --replay {{path}}",
            "engine": c["engine"],
            "technique": c["technique"],
            "level_claimed": {"category": c["category"], "text": c["text"], "design_ref": c["design"]},
            "level_note": c["note"],
        })
    used = sorted({c["engine"] for c in CHECKS.values()})
    engines = []
    for e in used:
        for part in e.split("+"):
            part = part.strip()
            if part in ENGINES and not any(x["name"] == part for x in engines):
                engines.append({"name": part, "path": ENGINES[part][0],
                                "serves_properties": sorted(p for p, c in CHECKS.items() if part in c["engine"]),
                                "kind_free_text": ENGINES[part][1]})
    na = [{"property_id": p, "reason": f"no check registered yet: the {PLANNED[p]} engine for this property is still under construction (model checking does apply; see DESIGN.md)"}
          for p in sorted(PLANNED) if p not in CHECKS]
    m = {
        "version": 1,
        "setup_cmd": "./setup.sh",
        "hooks": {
            "guard": "cargo feature `verif` (autosar-data/verif, which enables autosar-data-specification/verif); off by default",
            "enable": "the harness crate /verif/harness depends on /repo/autosar-data and /repo/autosar-data-specification by path with features = [\"verif\"]; ./check rebuilds it from /repo's working tree on every call",
            "baseline_off_cmd": "cd /repo && cargo test --workspace --no-fail-fast --offline",
            "source_commits": HOOK_COMMITS,
            "add_only": True,
        },
        "engines": engines,
        "checks": checks,
        "not_applicable": na,
        "notes": "All checks: ./check <ID> <quick|thorough>; exit 0 = held (known findings printed as KNOWN-FINDING lines), 1 = VIOLATION lines, 2 = machinery failure. known_findings.json lists recorded findings and fixed defects.",
    }
    json.dump(m, open("/verif/MANIFEST.json", "w"), indent=1)
    print("claimed:", len(checks), "not claimed:", len(na))


if __name__ == "__main__":
    main()
