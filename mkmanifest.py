#!/usr/bin/env python3
"""Generates /verif/MANIFEST.json. Edit CHECKS / PLANNED here, then run ./mkmanifest.py && ./validate.sh"""
import json

HOOK_COMMITS = ["5cccbdb", "1265dc6"]

ENGINES = {
    "lexenum": ("harness/src/props/c02.rs", "exhaustive enumeration of byte strings over a token alphabet, of all single/double edits of seed documents and of all prefixes; every string is run through the real loader"),
    "tablesweep": ("harness/src/props/c18.rs", "complete sweep of the finite specification tables and of all one-edit neighbours of every name"),
    "dfaconf": ("harness/src/props/c19.rs", "regex -> minimal DFA reference model; W-method conformance suites and exhaustive short-string enumeration replayed on the real validator functions"),
    "specwalk": ("harness/src/common/specgraph.rs", "breadth-first walk over the finite specification graph (element types x versions); every edge/attribute/value kind is instantiated in generated documents and run through the real code"),
    "histx": ("harness/src/engine/histx.rs", "explicit-state breadth-first search over histories of public API calls on the real model; canonical-state hashing; invariants in every state, transition oracles on every transition"),
    "schedx": ("harness/src/engine/schedx.rs", "stateless controlled-scheduler exploration of real threads at lock-acquisition granularity with a parking_lot lock model; preemption-bounded DFS"),
}

# id -> dict(engine, category, text, note, technique, design)
CHECKS = {
    "C02": dict(
        engine="lexenum", category="exploration", design="DESIGN.md section 5, C02",
        technique="bounded exhaustive enumeration of inputs (all token strings up to length L, all 1-2 edit neighbours and all prefixes of seed documents) executed on the real loader",
        text="Every byte string composed of <= 4 (thorough 5) tokens of a 40-token XML alphabet, every prefix and every single (thorough: every pair of) token/byte edit of 12 seed documents and a nesting ladder are loaded strictly, leniently and probed with check_buffer; panics, aborts, hangs, out-of-range error lines and check_buffer/load disagreement are violations. Exhaustive inside these bounds, silent outside them.",
        note="Trusted: catch_unwind reports every panic; a stack overflow is only observed in the child-process ladder. Inputs longer than the bound that are not within 2 edits of a seed are not covered."),
}

PLANNED = {
    "C01": "specwalk + lexenum", "C03": "histx", "C04": "histx", "C05": "histx", "C06": "histx", "C07": "specwalk",
    "C08": "specwalk + lexenum", "C09": "histx (distributions)", "C10": "histx", "C11": "histx", "C12": "histx",
    "C13": "histx + specwalk", "C14": "histx (permutations)", "C15": "schedx", "C16": "schedx", "C17": "specwalk",
    "C18": "table sweep", "C19": "dfaconf", "C20": "dfaconf",
}


def main():
    try:
        import manifest_local  # optional overrides written by later steps
        CHECKS.update(manifest_local.CHECKS)
    except ImportError:
        pass
    checks = []
    for pid in sorted(CHECKS):
        c = CHECKS[pid]
        checks.append({
            "property_id": pid,
            "quick_cmd": f"./check {pid} quick",
            "thorough_cmd": f"./check {pid} thorough",
            "evidence_file": f"evidence/{pid}.json",
            "replay_cmd_template": f"./check {pid} --replay {{path}}",
            "engine": c["engine"],
            "technique": c["technique"],
            "level_claimed": {"category": c["category"], "text": c["text"], "design_ref": c["design"]},
            "level_note": c["note"],
        })
    used = sorted({c["engine"] for c in CHECKS.values()})
    engines = []
    for e in used:
        for part in e.split("+"):
            part = part.strip()
            if part in ENGINES and not any(x["name"] == part for x in engines):
                engines.append({"name": part, "path": ENGINES[part][0],
                                "serves_properties": sorted(p for p, c in CHECKS.items() if part in c["engine"]),
                                "kind_free_text": ENGINES[part][1]})
    na = [{"property_id": p, "reason": f"no check registered yet: the {PLANNED[p]} engine for this property is still under construction (model checking does apply; see DESIGN.md)"}
          for p in sorted(PLANNED) if p not in CHECKS]
    m = {
        "version": 1,
        "setup_cmd": "./setup.sh",
        "hooks": {
            "guard": "cargo feature `verif` (autosar-data/verif, which enables autosar-data-specification/verif); off by default",
            "enable": "the harness crate /verif/harness depends on /repo/autosar-data and /repo/autosar-data-specification by path with features = [\"verif\"]; ./check rebuilds it from /repo's working tree on every call",
            "baseline_off_cmd": "cd /repo && cargo test --workspace --no-fail-fast --offline",
            "source_commits": HOOK_COMMITS,
            "add_only": True,
        },
        "engines": engines,
        "checks": checks,
        "not_applicable": na,
        "notes": "All checks: ./check <ID> <quick|thorough>; exit 0 = held (known findings printed as KNOWN-FINDING lines), 1 = VIOLATION lines, 2 = machinery failure. known_findings.json lists recorded findings and fixed defects.",
    }
    json.dump(m, open("/verif/MANIFEST.json", "w"), indent=1)
    print("claimed:", len(checks), "not claimed:", len(na))


if __name__ == "__main__":
    main()
